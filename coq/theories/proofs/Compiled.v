From Coq Require Import Reals List String Arith.
From SM Require Import Num NumR Graph Engine Expr ExprEval Types Blocks ToFunction.
From SM.specs Require Import C03_spec.
From SM.proofs Require Import Homomorphism StepSpec.
Import ListNotations.

Lemma list_rho_self env (l : list expr) : list_R expr R (rho env) l (map (eval env) l).
Proof. induction l; simpl; constructor; [reflexivity|assumption]. Qed.

Lemma state_rel env (st : state expr) :
  SM_o_Types_o_state_R expr R (rho env) st (eval_state env st).
Proof.
  destruct st. unfold eval_state. simpl. constructor; intros a b H; apply nat_R_eq in H; subst;
    unfold rho; try reflexivity; apply list_rho_self.
Qed.
Lemma params_rel env (P : params expr) :
  SM_o_Types_o_params_R expr R (rho env) P (eval_params env P).
Proof.
  destruct P. unfold eval_params. simpl. constructor; unfold rho; try reflexivity.
  - intros a b H p q Hp. apply nat_R_eq in H. apply lpar_R_eq in Hp. subst. reflexivity.
  - intros a b H. apply nat_R_eq in H. subst. reflexivity.
  - destruct gdelta; constructor. reflexivity.
  - destruct gphi; constructor. reflexivity.
Qed.

(* regrouping commutes with mapping the values *)
Lemma regroup_add_map {T V} (f : T -> V) k v acc :
  regroup_add k (map f v) (map (fun x => (fst x, map f (snd x))) acc) =
  map (fun x => (fst x, map f (snd x))) (regroup_add k v acc).
Proof.
  induction acc as [|[k' v'] acc IH]; simpl; [reflexivity|].
  destruct (String.eqb k' k); simpl; [rewrite map_app; reflexivity|rewrite IH; reflexivity].
Qed.
Lemma regroup_map {T V} (f : T -> V) (l : list (string * list T)) :
  regroup (map (fun x => (fst x, map f (snd x))) l) = map (fun x => (fst x, map f (snd x))) (regroup l).
Proof.
  unfold regroup. change (@nil (string * list V)) with (map (fun x : string * list T => (fst x, map f (snd x))) []).
  generalize (@nil (string * list T)). induction l as [|[k v] l IH]; intros acc; simpl; [reflexivity|].
  rewrite regroup_add_map. apply IH.
Qed.

Lemma next_entries_eval env (out : step_out (A:=expr)) :
  next_entries (eval_out env out) = map (fun x => (fst x, map (eval env) (snd x))) (next_entries out).
Proof.
  unfold next_entries, eval_out. simpl. rewrite map_app. f_equal.
  - induction (o_links out) as [|x l IH]; simpl; [reflexivity|]. rewrite IH. reflexivity.
  - induction (o_queues out) as [|x l IH]; simpl; [reflexivity|]. rewrite map_app, IH.
    destruct (snd x); reflexivity.
Qed.

Lemma concat_map_map {T V} (f : T -> V) (l : list (list T)) :
  List.concat (map (map f) l) = map f (List.concat l).
Proof. induction l; simpl; [reflexivity|]. rewrite map_app. congruence. Qed.

Lemma state_outputs_eval env nm c (out : step_out (A:=expr)) :
  state_outputs nm c (eval_out env out) = eval_named env (state_outputs nm c out).
Proof.
  assert (L1 : outputs_level1 (eval_out env out) = eval_named env (outputs_level1 out)).
  { unfold outputs_level1, eval_named. rewrite next_entries_eval, map_map. simpl.
    rewrite <- regroup_map. f_equal. rewrite map_map. reflexivity. }
  destruct c as [|[|c]]; simpl.
  - unfold outputs_level0, eval_named. rewrite next_entries_eval, !map_map. reflexivity.
  - exact L1.
  - unfold outputs_level2. rewrite L1. unfold eval_named. simpl. f_equal. f_equal.
    rewrite map_map. simpl. rewrite <- concat_map_map, map_map. reflexivity.
Qed.

Theorem compiled_is_numpy_step_proof : compiled_is_numpy_step.
Proof.
  intros env nm U P g opts c. unfold tf_outputs, st0.
  pose proof (eval_step env cs_engine cs_engine (cs_engine_rho env) U P (eval_params env P) g opts
                (net_state U g) (eval_state env (net_state U g)) (params_rel env P) (state_rel env _)) as H.
  rewrite (@cs_engine_eq_np R NumR) in H. rewrite <- H.
  destruct (network_step cs_engine U P g opts (net_state U g)) as [out|e]; simpl; [|reflexivity].
  rewrite state_outputs_eval. reflexivity.
Qed.

Theorem symbolic_parameters_are_values_proof : symbolic_parameters_are_values.
Proof.
  intros env nm U P P' g opts c HP.
  rewrite !compiled_is_numpy_step_proof, HP. reflexivity.
Qed.

Theorem parameters_trail_in_order_proof : parameters_trail_in_order.
Proof.
  intros nm U g c ps. eexists. split; [reflexivity|]. split.
  - unfold tf_inputs. simpl. rewrite app_nil_r. reflexivity.
  - split.
    + destruct ps as [|p ps]; [reflexivity|]. destruct c; simpl.
      * f_equal. induction ps as [|q ps IH]; simpl; [reflexivity|]. f_equal. exact IH.
      * rewrite app_nil_r. reflexivity.
    + intros ->. destruct ps as [|p ps]; [reflexivity|]. simpl. rewrite map_map. reflexivity.
Qed.
