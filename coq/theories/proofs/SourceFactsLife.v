(* one proof file per fact group: a fact that no longer holds breaks only the properties resting on it *)
From Coq Require Import List ZArith Bool Lia ZifyBool.
From SM.gen Require Import Tables.
From SM.specs Require Import SourceFacts_spec.

Theorem init_resets_in_source_proof : init_resets_in_source.
Proof. vm_compute. reflexivity. Qed.
