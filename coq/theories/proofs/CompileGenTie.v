(* CompileGenTie.v — the layout functions of ToFunction.v = the regenerated compile helpers (gen/CompileGen.v). *)
From Coq Require Import List ZArith String Bool Lia.
From SM Require Import Num Graph Engine Expr Types Blocks Validity ToFunction PySupport.
From SM.gen Require Import CompileGen.
From SM.specs Require Import CompileGen_spec.
Import ListNotations.

(* ---------- generic list / loop lemmas ---------- *)
Lemma fold_left_ext' {A B} (f h : A -> B -> A) : (forall a b, f a b = h a b) -> forall l a, fold_left f l a = fold_left h l a.
Proof. intros E l; induction l as [|b l IH]; intros a; cbn; [reflexivity|]. rewrite E; apply IH. Qed.
Lemma fold_left_map' {A B C} (f : A -> C -> A) (h : B -> C) l a :
  fold_left f (map h l) a = fold_left (fun a b => f a (h b)) l a.
Proof. revert a; induction l as [|b l IH]; intros a; cbn; [reflexivity|apply IH]. Qed.
Lemma fold_flat {A B C} (f : A -> C -> A) (h : B -> list C) l a :
  fold_left (fun a it => fold_left f (h it) a) l a = fold_left f (flat_map h l) a.
Proof. revert a; induction l as [|b l IH]; intros a; cbn; [reflexivity|]. rewrite fold_left_app. apply IH. Qed.
Lemma flat_map_map' {X Y Z} (h : X -> Y) (F : Y -> list Z) l : flat_map F (map h l) = flat_map (fun x => F (h x)) l.
Proof. induction l as [|x l IH]; cbn; [reflexivity|rewrite IH; reflexivity]. Qed.
Lemma map_flat_map' {X Y Z} (h : Y -> Z) (F : X -> list Y) l : map h (flat_map F l) = flat_map (fun x => map h (F x)) l.
Proof. induction l as [|x l IH]; cbn; [reflexivity|rewrite map_app, IH; reflexivity]. Qed.
Lemma flat_map_ext' {X Y} (F G : X -> list Y) l : (forall x, F x = G x) -> flat_map F l = flat_map G l.
Proof. intros E; induction l as [|x l IH]; cbn; [reflexivity|rewrite E, IH; reflexivity]. Qed.
Lemma flat_map_single {X Y} (f : X -> Y) l : flat_map (fun x => [f x]) l = map f l.
Proof. induction l as [|x l IH]; cbn; [reflexivity|rewrite IH; reflexivity]. Qed.
Lemma combine_fst_snd {X Y} (l : list (X * Y)) : combine (map fst l) (map snd l) = l.
Proof. induction l as [|[x y] l IH]; cbn; [reflexivity|rewrite IH; reflexivity]. Qed.
Lemma len_fst_snd {X Y} (l : list (X * Y)) : List.length (map fst l) = List.length (map snd l).
Proof. rewrite !map_length; reflexivity. Qed.

Section Loops.
Context {V : Type}.

(* a loop that appends names and values item by item *)
Lemma fold_pairs {X} (F : X -> list (string * V)) (body : list string * list V -> X -> list string * list V) :
  (forall n a x, body (n, a) x = (n ++ map fst (F x), a ++ map snd (F x))) ->
  forall l n a, fold_left body l (n, a) = (n ++ map fst (flat_map F l), a ++ map snd (flat_map F l)).
Proof.
  intros H l; induction l as [|x l IH]; intros n a; cbn.
  - rewrite !app_nil_r; reflexivity.
  - rewrite H, IH, !map_app, !app_assoc. reflexivity.
Qed.

(* the regrouping step of the helpers: `if k in D: D[k].append(v) else: D[k] = [v]` *)
Definition radd (D : list (string * list V)) (kv : string * V) : list (string * list V) :=
  if d_mem D (fst kv) then d_set D (fst kv) (d_get D (fst kv) ++ [snd kv]) else d_set D (fst kv) [snd kv].

Lemma radd_cons k' l D kv : String.eqb k' (fst kv) = false -> radd ((k', l) :: D) kv = (k', l) :: radd D kv.
Proof. intros E. unfold radd. cbn. rewrite E. destruct (d_mem D (fst kv)); reflexivity. Qed.
End Loops.

(* regrouping with lists of vectors, then stacking = ToFunction.regroup (which concatenates at once) *)
Definition cv {T} (e : string * list (list T)) : string * list T := (fst e, List.concat (snd e)).

Lemma radd_regroup {T} (D : list (string * list (list T))) k (v : list T) :
  map cv (radd D (k, v)) = regroup_add k v (map cv D).
Proof.
  induction D as [|[k' l] D IH].
  - unfold radd, cv; cbn. rewrite app_nil_r. reflexivity.
  - destruct (String.eqb k' k) eqn:E.
    + unfold radd. cbn. rewrite E. cbn. unfold cv at 1. cbn [fst snd].
      rewrite concat_app. cbn. rewrite app_nil_r. reflexivity.
    + rewrite radd_cons by exact E. cbn. rewrite E, IH. reflexivity.
Qed.

Lemma fold_radd_regroup {T} (kvs : list (string * list T)) : forall D,
  map cv (fold_left radd kvs D) = fold_left (fun acc kv => regroup_add (fst kv) (snd kv) acc) kvs (map cv D).
Proof.
  induction kvs as [|[k v] kvs IH]; intros D; cbn [fold_left]; [reflexivity|].
  rewrite IH, radd_regroup. reflexivity.
Qed.

Lemma map_cv_is_generated_stack {T} (D : list (string * list (list T))) :
  map (fun '(varname, list_of_vars) => (varname, List.concat list_of_vars)) D = map cv D.
Proof. apply map_ext. intros [k l]; reflexivity. Qed.

(* one group of the helpers' first loop nest = regroup of the (name, value) pairs of the group *)
Lemma group_loop {E T} (x : list (E * list (string * list T))) :
  map cv (fold_left (fun st_ it_ => let states := st_ in let '(el, vars) := it_ in
            let states := fold_left (fun st_ it_ => let states := st_ in let '(varname, var) := it_ in
              if d_mem states varname
              then (let states := d_set states varname (d_get states varname ++ [var])%list in states)
              else (let states := d_set states varname ([var]) in states)) vars states in
            states) x [])
  = regroup (flat_map snd x).
Proof.
  unfold regroup. pose proof (fold_radd_regroup (flat_map snd x) []) as H. cbn [map] in H. rewrite <- H. clear H.
  f_equal. rewrite <- fold_flat. apply fold_left_ext'. intros D [el vars]. cbn [snd].
  apply fold_left_ext'. intros D' [k v]. reflexivity.
Qed.

Lemma group_loop_gen {X T} (f : string * list (list T) -> string * list T)
      (body : list (string * list (list T)) -> X -> list (string * list (list T)))
      (h : X -> list (string * list T)) (xs : list X) :
  (forall e, f e = cv e) -> (forall D it, body D it = fold_left radd (h it) D) ->
  map f (fold_left body xs []) = regroup (flat_map h xs).
Proof.
  intros Hf Hb. rewrite (map_ext _ _ Hf).
  unfold regroup. pose proof (fold_radd_regroup (flat_map h xs) []) as H. cbn [map] in H. rewrite <- H. clear H.
  f_equal. rewrite <- fold_flat. apply fold_left_ext'. exact Hb.
Qed.

Lemma concat_singletons {X Y} (ps : list (X * Y)) :
  List.concat (map snd (map (fun p => (fst p, [snd p])) ps)) = map snd ps.
Proof. induction ps as [|p ps IH]; cbn; [reflexivity|rewrite IH; reflexivity]. Qed.

Lemma combine_app_eq {X Y} (a a' : list X) (b b' : list Y) :
  List.length a = List.length b -> combine (a ++ a') (b ++ b') = combine a b ++ combine a' b'.
Proof.
  revert b; induction a as [|x a IH]; intros [|y b] H; cbn in *; try discriminate; [reflexivity|].
  rewrite IH by (injection H; auto). reflexivity.
Qed.

(* ---------- inputs ---------- *)
Section Inputs.
Variable nm : names.
Variable U : universe.
Variable g : graph.

Definition Fi (el : elem) (kv : string * list ident) : list (string * list ident) :=
  [((fst kv ++ "_" ++ elem_name nm el)%string, snd kv)].
Definition Fo (it : elem * list (string * list ident)) : list (string * list ident) :=
  flat_map (Fi (fst it)) (snd it).

Lemma dd_kvs gr : flat_map snd (dd_of U g gr) = map (fun x => (snd (fst x), snd x)) (group_entries U g gr).
Proof.
  unfold dd_of, group_entries. rewrite flat_map_map', map_flat_map'. apply flat_map_ext'. intros el. cbn [snd].
  rewrite map_map. reflexivity.
Qed.

Lemma dd_l0 gr :
  flat_map Fo (dd_of U g gr)
  = map (fun x => ((snd (fst x) ++ "_" ++ elem_name nm (fst (fst x)))%string, snd x)) (group_entries U g gr).
Proof.
  unfold dd_of, group_entries. rewrite flat_map_map', map_flat_map'. apply flat_map_ext'. intros el.
  unfold Fo. cbn [fst snd]. rewrite flat_map_map', map_map. unfold Fi. cbn [fst snd]. rewrite flat_map_single. reflexivity.
Qed.

Lemma level0_body n a (it : elem * list (string * list ident)) body :
  (forall el n a kv, body el (n, a) kv = (n ++ map fst (Fi el kv), a ++ map snd (Fi el kv))) ->
  fold_left (body (fst it)) (snd it) (n, a) = (n ++ map fst (Fo it), a ++ map snd (Fo it)).
Proof. intros H. unfold Fo. apply fold_pairs. apply H. Qed.
End Inputs.

Ltac group_loops h :=
  repeat match goal with
         | |- context [map ?f (fold_left ?body ?x [])] =>
           let H := fresh "HG" in
           assert (H : map f (fold_left body x []) = regroup (flat_map h x))
             by (apply group_loop_gen; [intros [? ?]; reflexivity|]; intros ? ?; cbv beta zeta;
                 match goal with
                 | |- context [let '(_, _) := ?it in _] => destruct it
                 | _ => idtac
                 end; cbn [snd]; rewrite ?fold_left_map'; apply fold_left_ext'; intros ? [? ?]; reflexivity);
           rewrite H; clear H
         end.

Theorem inputs_layout_is_the_regenerated_code_proof : inputs_layout_is_the_regenerated_code.
Proof.
  intros nm U g c ps. unfold gen_gather_inputs, zlevel.
  destruct (c <=? 0)%Z eqn:E0.
  - (* no aggregation *)
    cbv zeta.
    rewrite (fold_pairs (Fo nm)) by (intros n a [el vars]; cbv beta iota;
      rewrite (fold_pairs (Fi nm el)) by (intros n' a' [vn v]; reflexivity); reflexivity).
    cbv beta iota.
    rewrite (fold_pairs (Fo nm)) by (intros n a [el vars]; cbv beta iota;
      rewrite (fold_pairs (Fi nm el)) by (intros n' a' [vn v]; reflexivity); reflexivity).
    cbv beta iota.
    rewrite (fold_pairs (Fo nm)) by (intros n a [el vars]; cbv beta iota;
      rewrite (fold_pairs (Fi nm el)) by (intros n' a' [vn v]; reflexivity); reflexivity).
    cbv beta iota. cbn [app]. rewrite <- !map_app, !dd_l0.
    assert (HL : map (fun x => ((snd (fst x) ++ "_" ++ elem_name nm (fst (fst x)))%string, snd x)) (group_entries U g GX)
                 ++ map (fun x => ((snd (fst x) ++ "_" ++ elem_name nm (fst (fst x)))%string, snd x)) (group_entries U g GU)
                 ++ map (fun x => ((snd (fst x) ++ "_" ++ elem_name nm (fst (fst x)))%string, snd x)) (group_entries U g GD)
                 = inputs_level0 nm U g).
    { unfold inputs_level0. cbn [flat_map]. rewrite app_nil_r. reflexivity. }
    rewrite <- app_assoc, HL.
    destruct ps as [|p ps].
    + unfold tf_inputs, param_inputs. rewrite app_nil_r, combine_fst_snd. split; [reflexivity|apply len_fst_snd].
    + unfold gen_add_parameters_to_inputs. rewrite E0. cbv zeta.
      rewrite <- !map_app, combine_fst_snd. split; [reflexivity|apply len_fst_snd].
  - (* regrouping by variable name *)
    cbv zeta. group_loops (@snd elem (list (string * list ident))). rewrite !dd_kvs.
    destruct (c =? 1)%Z eqn:E1.
    + cbv zeta.
      assert (HL : regroup (map (fun x => (snd (fst x), snd x)) (group_entries U g GX))
                   ++ regroup (map (fun x => (snd (fst x), snd x)) (group_entries U g GU))
                   ++ regroup (map (fun x => (snd (fst x), snd x)) (group_entries U g GD))
                   = inputs_level1 U g).
      { unfold inputs_level1. cbn [flat_map]. rewrite app_nil_r. reflexivity. }
      rewrite <- !map_app, HL.
      destruct ps as [|p ps].
      * unfold tf_inputs, param_inputs. rewrite app_nil_r, combine_fst_snd. split; [reflexivity|apply len_fst_snd].
      * unfold gen_add_parameters_to_inputs. rewrite E0. cbv zeta.
        rewrite combine_app_eq by apply len_fst_snd. rewrite combine_fst_snd. unfold tf_inputs, param_inputs; cbn [combine].
        rewrite concat_singletons. split; [reflexivity|]. rewrite !app_length, !map_length. reflexivity.
    + cbv zeta.
      destruct ps as [|p ps].
      * unfold tf_inputs, param_inputs; cbn [combine]. rewrite app_nil_r. split; reflexivity.
      * unfold gen_add_parameters_to_inputs. rewrite E0. cbv zeta.
        unfold tf_inputs, param_inputs; cbn [combine app]. rewrite concat_singletons. split; reflexivity.
Qed.

(* ---------- outputs ---------- *)
Section Outputs.
Context {A : Type}.
Variable nm : names.

Definition Gi (el : elem) (kv : string * list A) : list (string * list A) :=
  [((fst kv ++ "_" ++ elem_name nm el ++ "+")%string, snd kv)].
Definition Go (it : elem * list (string * list A)) : list (string * list A) := flat_map (Gi (fst it)) (snd it).
Definition plus (kv : string * list A) : string * list A := ((fst kv ++ "+")%string, snd kv).

Lemma next_l0 (out : step_out (A:=A)) :
  flat_map Go (next_dd out)
  = map (fun x => ((snd (fst x) ++ "_" ++ elem_name nm (fst (fst x)) ++ "+")%string, snd x)) (next_entries out).
Proof.
  unfold next_dd, next_entries. rewrite flat_map_app, map_app. f_equal.
  - rewrite flat_map_map', map_flat_map'. apply flat_map_ext'. intros [m [r v]]. reflexivity.
  - rewrite map_flat_map'. induction (o_queues out) as [|[o [w|]] l IH]; cbn; [reflexivity| |]; rewrite IH; reflexivity.
Qed.

Lemma next_kvs (out : step_out (A:=A)) :
  flat_map (fun vars => map plus vars) (map snd (next_dd out))
  = map (fun x => ((snd (fst x) ++ "+")%string, snd x)) (next_entries out).
Proof.
  unfold next_dd, next_entries. rewrite map_app, flat_map_app, map_app. f_equal.
  - rewrite map_map, flat_map_map', map_flat_map'. apply flat_map_ext'. intros [m [r v]]. reflexivity.
  - rewrite map_flat_map'. induction (o_queues out) as [|[o [w|]] l IH]; cbn; [reflexivity| |]; rewrite IH; reflexivity.
Qed.
End Outputs.

Theorem outputs_layout_is_the_regenerated_code_proof : outputs_layout_is_the_regenerated_code.
Proof.
  intros A nm out c. unfold gen_gather_outputs, zlevel.
  destruct (c <=? 0)%Z eqn:E0.
  - cbv zeta.
    rewrite (fold_pairs (Go nm)) by (intros n a [el vars]; cbv beta iota;
      rewrite (fold_pairs (Gi nm el)) by (intros n' a' [vn v]; reflexivity); reflexivity).
    cbv beta iota. cbn [app]. rewrite next_l0, combine_fst_snd. split; [reflexivity|apply len_fst_snd].
  - cbv zeta. group_loops (fun vars : list (string * list A) => map (@plus A) vars). rewrite next_kvs.
    destruct (c =? 1)%Z eqn:E1; cbv zeta.
    + rewrite combine_fst_snd. split; [reflexivity|apply len_fst_snd].
    + split; reflexivity.
Qed.

(* ---------- extra flow outputs ---------- *)
Theorem flows_layout_is_the_regenerated_code_proof : flows_layout_is_the_regenerated_code.
Proof.
  intros A nm lids oids lf qf names0 args0 pars c Hlen. unfold gen_add_flows_to_outputs, zlevel. cbv zeta.
  rewrite (fold_pairs (fun m => [(("q_" ++ lname nm m)%string, lf m)])) by (intros n a m; reflexivity).
  cbv beta iota.
  rewrite (fold_pairs (fun o => [(("q_o_" ++ oname nm o)%string, qf o)])) by (intros n a o; reflexivity).
  cbv beta iota. cbn [app]. rewrite !flat_map_single.
  set (ql := map (fun m => (("q_" ++ lname nm m)%string, lf m)) lids).
  set (qo := map (fun o => (("q_o_" ++ oname nm o)%string, qf o)) oids).
  destruct (0 <? c)%Z eqn:E0.
  - assert (Hle : (c <=? 0)%Z = false) by lia. rewrite Hle.
    destruct (1 <? c)%Z eqn:E1.
    + assert (H1 : (c =? 1)%Z = false) by lia. rewrite H1.
      eexists _, _. split; [reflexivity|]. split.
      * rewrite !app_length, Hlen. reflexivity.
      * rewrite combine_app_eq by exact Hlen. cbn. rewrite app_nil_r. reflexivity.
    + assert (H1 : (c =? 1)%Z = true) by lia. rewrite H1.
      eexists _, _. split; [reflexivity|]. split.
      * rewrite !app_length, Hlen. reflexivity.
      * rewrite combine_app_eq by exact Hlen. reflexivity.
  - assert (Hle : (c <=? 0)%Z = true) by lia. rewrite Hle.
    assert (E1 : (1 <? c)%Z = false) by lia. rewrite E1.
    eexists _, _. split; [reflexivity|]. split.
    + rewrite !app_length, Hlen, !map_length. reflexivity.
    + rewrite combine_app_eq by exact Hlen. rewrite <- !map_app, combine_fst_snd. reflexivity.
Qed.

Theorem model_flow_outputs_use_flow_layout_proof : model_flow_outputs_use_flow_layout.
Proof. intros E nm U P g opts compact. reflexivity. Qed.

(* ---------- the helpers as pure functions of arbitrary dictionaries, and to_function itself ---------- *)
Section Generic.
Context {E T : Type}.
Variable ename : E -> string.

Definition Hi (el : E) (kv : string * list T) : list (string * list T) := [((fst kv ++ "_" ++ ename el)%string, snd kv)].
Definition Ho (it : E * list (string * list T)) : list (string * list T) := flat_map (Hi (fst it)) (snd it).
Lemma Ho_lay0 x : flat_map Ho x = lay0_in ename x.
Proof. unfold lay0_in. apply flat_map_ext'. intros it. unfold Ho, Hi. apply flat_map_single. Qed.

Definition Ji (el : E) (kv : string * list T) : list (string * list T) := [((fst kv ++ "_" ++ ename el ++ "+")%string, snd kv)].
Definition Jo (it : E * list (string * list T)) : list (string * list T) := flat_map (Ji (fst it)) (snd it).
Lemma Jo_lay0 x : flat_map Jo x = lay0_out ename x.
Proof. unfold lay0_out. apply flat_map_ext'. intros it. unfold Jo, Ji. apply flat_map_single. Qed.
Definition plus' (kv : string * list T) : string * list T := ((fst kv ++ "+")%string, snd kv).
Lemma kv_out_eq (x : list (E * list (string * list T))) : flat_map (fun vars => map plus' vars) (map snd x) = kv_out x.
Proof. unfold kv_out. rewrite flat_map_map'. reflexivity. Qed.

Lemma gather_inputs_generic x u d c :
  gen_gather_inputs ename (@List.concat T) x u d c
  = (map fst (lay_inputs ename x u d c), map snd (lay_inputs ename x u d c)).
Proof.
  unfold gen_gather_inputs, lay_inputs, zlevel.
  destruct (c <=? 0)%Z eqn:E0.
  - cbv zeta.
    rewrite (fold_pairs Ho) by (intros n a [el vars]; cbv beta iota;
      rewrite (fold_pairs (Hi el)) by (intros n' a' [vn v]; reflexivity); reflexivity).
    cbv beta iota.
    rewrite (fold_pairs Ho) by (intros n a [el vars]; cbv beta iota;
      rewrite (fold_pairs (Hi el)) by (intros n' a' [vn v]; reflexivity); reflexivity).
    cbv beta iota.
    rewrite (fold_pairs Ho) by (intros n a [el vars]; cbv beta iota;
      rewrite (fold_pairs (Hi el)) by (intros n' a' [vn v]; reflexivity); reflexivity).
    cbv beta iota. cbn [app]. rewrite <- !map_app, !Ho_lay0, <- app_assoc. reflexivity.
  - cbv zeta. group_loops (@snd E (list (string * list T))). fold (kv_in x) (kv_in u) (kv_in d).
    destruct (c =? 1)%Z eqn:E1; cbv zeta.
    + rewrite <- !map_app. reflexivity.
    + reflexivity.
Qed.

Lemma add_parameters_generic n a (ps : list (string * list T)) c :
  gen_add_parameters_to_inputs (@List.concat T) n a ps c
  = (n ++ map fst (if (c <=? 0)%Z then ps else [("p"%string, List.concat (map snd ps))]),
     a ++ map snd (if (c <=? 0)%Z then ps else [("p"%string, List.concat (map snd ps))])).
Proof. unfold gen_add_parameters_to_inputs. destruct (c <=? 0)%Z; reflexivity. Qed.

Lemma gather_outputs_generic x c :
  gen_gather_outputs ename (@List.concat T) x c
  = (map fst (lay_outputs ename x c), map snd (lay_outputs ename x c)).
Proof.
  unfold gen_gather_outputs, lay_outputs, zlevel.
  destruct (c <=? 0)%Z eqn:E0.
  - cbv zeta.
    rewrite (fold_pairs Jo) by (intros n a [el vars]; cbv beta iota;
      rewrite (fold_pairs (Ji el)) by (intros n' a' [vn v]; reflexivity); reflexivity).
    cbv beta iota. cbn [app]. rewrite Jo_lay0. reflexivity.
  - cbv zeta. group_loops (fun vars : list (string * list T) => map plus' vars). rewrite kv_out_eq.
    destruct (c =? 1)%Z eqn:E1; cbv zeta; reflexivity.
Qed.
End Generic.

Theorem to_function_layout_is_the_regenerated_code_proof : to_function_layout_is_the_regenerated_code.
Proof.
  intros E L O T ename lname oname links origins lf qf x u d nxt c more_out ps.
  unfold gen_to_function. cbv zeta.
  assert (Hid : forall l : list (E * list (string * list T)), map (fun '(el, vars) => (el, vars)) l = l).
  { intros l. induction l as [|[el vars] l IH]; cbn; [reflexivity|rewrite IH; reflexivity]. }
  rewrite !Hid, gather_inputs_generic.
  set (P := match ps with Some p_ => p_ | None => [] end).
  assert (Hin : (if negb (isnil_ P)
                 then gen_add_parameters_to_inputs (@List.concat T) (map fst (lay_inputs ename x u d c)) (map snd (lay_inputs ename x u d c)) P c
                 else (map fst (lay_inputs ename x u d c), map snd (lay_inputs ename x u d c)))
                = (map fst (lay_inputs ename x u d c ++ lay_params P c), map snd (lay_inputs ename x u d c ++ lay_params P c))).
  { destruct P as [|p P']; cbn [isnil_ negb lay_params].
    - rewrite app_nil_r. reflexivity.
    - rewrite add_parameters_generic, !map_app. reflexivity. }
  rewrite Hin. clear Hin. rewrite gather_outputs_generic.
  destruct more_out.
  - (* the flow helper, on the lists gathered so far *)
    assert (HF : exists names1 args1,
               gen_add_flows_to_outputs lname oname (@List.concat T) links origins lf qf
                 (map fst (lay_outputs ename nxt c)) (map snd (lay_outputs ename nxt c)) P c = Some (names1, args1)
               /\ List.length names1 = List.length args1
               /\ combine names1 args1 = lay_outputs ename nxt c
                    ++ flow_layout (zlevel c) (map (fun m => (("q_" ++ lname m)%string, lf m)) links)
                                              (map (fun o => (("q_o_" ++ oname o)%string, qf o)) origins)).
    { clear. unfold gen_add_flows_to_outputs, zlevel. cbv zeta.
      rewrite (fold_pairs (fun m => [(("q_" ++ lname m)%string, lf m)])) by (intros n a m; reflexivity).
      cbv beta iota.
      rewrite (fold_pairs (fun o => [(("q_o_" ++ oname o)%string, qf o)])) by (intros n a o; reflexivity).
      cbv beta iota. cbn [app]. rewrite !flat_map_single.
      set (ql := map (fun m => (("q_" ++ lname m)%string, lf m)) links).
      set (qo := map (fun o => (("q_o_" ++ oname o)%string, qf o)) origins).
      pose proof (len_fst_snd (lay_outputs ename nxt c)) as Hlen.
      destruct (0 <? c)%Z eqn:E0.
      - assert (Hle : (c <=? 0)%Z = false) by lia. rewrite Hle.
        destruct (1 <? c)%Z eqn:E1.
        + assert (H1 : (c =? 1)%Z = false) by lia. rewrite H1.
          eexists _, _. split; [reflexivity|]. split.
          * rewrite !app_length, Hlen. reflexivity.
          * rewrite combine_app_eq by exact Hlen. rewrite combine_fst_snd. cbn. rewrite app_nil_r. reflexivity.
        + assert (H1 : (c =? 1)%Z = true) by lia. rewrite H1.
          eexists _, _. split; [reflexivity|]. split.
          * rewrite !app_length, Hlen. reflexivity.
          * rewrite combine_app_eq by exact Hlen. rewrite combine_fst_snd. reflexivity.
      - assert (Hle : (c <=? 0)%Z = true) by lia. rewrite Hle.
        assert (E1 : (1 <? c)%Z = false) by lia. rewrite E1.
        eexists _, _. split; [reflexivity|]. split.
        + rewrite !app_length, Hlen, !map_length. reflexivity.
        + rewrite combine_app_eq by exact Hlen. rewrite <- !map_app, !combine_fst_snd. reflexivity. }
    destruct HF as (n1 & a1 & HF & _ & HC). rewrite HF, HC, combine_fst_snd. reflexivity.
  - rewrite !combine_fst_snd, app_nil_r. reflexivity.
Qed.

Theorem model_layouts_are_the_generic_ones_proof : model_layouts_are_the_generic_ones.
Proof.
  split.
  - intros nm U g c ps.
    pose proof (inputs_layout_is_the_regenerated_code_proof nm U g c ps) as H.
    rewrite gather_inputs_generic in H.
    destruct ps as [|p ps].
    + destruct H as [H _]. rewrite combine_fst_snd in H. cbn [map lay_params]. rewrite app_nil_r. exact H.
    + rewrite add_parameters_generic in H. destruct H as [H _].
      rewrite <- !map_app, combine_fst_snd in H. exact H.
  - intros A nm out c.
    pose proof (outputs_layout_is_the_regenerated_code_proof A nm out c) as H.
    rewrite gather_outputs_generic in H. destruct H as [H _]. rewrite combine_fst_snd in H. exact H.
Qed.
