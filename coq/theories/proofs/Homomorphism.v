(* Homomorphism.v — the element-layer model run on expression trees denotes the model run on
   reals: a free theorem.  Paramcoq generates the abstraction theorem network_step_R for the
   polymorphic model (its proof term is checked by the kernel like any other); instantiating the
   relation with  (fun e r => eval env e = r)  gives eval_step. *)
From Coq Require Import Reals Qreals QArith List String Bool Arith.
From Param Require Import Param.
From SM Require Import Num NumR Graph Engine Expr ExprEval Types Blocks.
From SM.gen Require Import EnginesNp EnginesCs.
Import ListNotations.

Parametricity Recursive np_engine qualified.
Parametricity Recursive cs_engine qualified.
Parametricity Recursive network_step qualified.

(* ---- relations on closed data are equality ---- *)
Lemma nat_R_eq a b : Coq_o_Init_o_Datatypes_o_nat_R a b -> a = b.
Proof. induction 1; congruence. Qed.
Lemma nat_R_refl a : Coq_o_Init_o_Datatypes_o_nat_R a a.
Proof. induction a; constructor; assumption. Qed.
Lemma bool_R_refl b : Coq_o_Init_o_Datatypes_o_bool_R b b.
Proof. destruct b; constructor. Qed.
Lemma positive_R_eq a b : Coq_o_Numbers_o_BinNums_o_positive_R a b -> a = b.
Proof. induction 1; congruence. Qed.
Lemma positive_R_refl a : Coq_o_Numbers_o_BinNums_o_positive_R a a.
Proof. induction a; constructor; assumption. Qed.
Lemma Z_R_eq a b : Coq_o_Numbers_o_BinNums_o_Z_R a b -> a = b.
Proof. destruct 1; try reflexivity; f_equal; apply positive_R_eq; assumption. Qed.
Lemma Z_R_refl a : Coq_o_Numbers_o_BinNums_o_Z_R a a.
Proof. destruct a; constructor; apply positive_R_refl. Qed.
Lemma Q_R_eq a b : Coq_o_QArith_o_QArith_base_o_Q_R a b -> a = b.
Proof. destruct 1. f_equal; [apply Z_R_eq|apply positive_R_eq]; assumption. Qed.
Lemma Q_R_refl a : Coq_o_QArith_o_QArith_base_o_Q_R a a.
Proof. destruct a. constructor; [apply Z_R_refl|apply positive_R_refl]. Qed.

Notation nat_R := Coq_o_Init_o_Datatypes_o_nat_R.
Notation list_R := Coq_o_Init_o_Datatypes_o_list_R.
Notation option_R := Coq_o_Init_o_Datatypes_o_option_R.
Notation prod_R := Coq_o_Init_o_Datatypes_o_prod_R.

Lemma list_R_refl {T} (TR : T -> T -> Type) (H : forall x, TR x x) l : list_R T T TR l l.
Proof. induction l; constructor; auto. Qed.
Lemma option_R_refl {T} (TR : T -> T -> Type) (H : forall x, TR x x) o : option_R T T TR o o.
Proof. destruct o; constructor; auto. Qed.
Lemma list_R_map {T A1 A2} (AR : A1 -> A2 -> Type) (f : T -> A1) (h : T -> A2) l :
  (forall x, AR (f x) (h x)) -> list_R A1 A2 AR (map f l) (map h l).
Proof. intros H. induction l; simpl; constructor; auto. Qed.

Lemma linkinfo_R_refl x : SM_o_Types_o_linkinfo_R x x.
Proof.
  destruct x. constructor; [apply nat_R_refl|apply Q_R_refl|].
  apply option_R_refl. intros l. apply list_R_refl. apply nat_R_refl.
Qed.
Lemma okind_R_refl x : SM_o_Types_o_okind_R x x.
Proof. destruct x; constructor; apply bool_R_refl. Qed.
Lemma dkind_R_refl x : SM_o_Types_o_dkind_R x x.
Proof. destruct x; constructor. Qed.
Lemma universe_R_refl U : SM_o_Types_o_universe_R U U.
Proof.
  destruct U. constructor; intros a b H; apply nat_R_eq in H; subst.
  - apply linkinfo_R_refl.
  - apply okind_R_refl.
  - apply dkind_R_refl.
Qed.
Lemma graph_R_refl g : SM_o_Graph_o_graph_R g g.
Proof.
  destruct g. constructor; apply list_R_refl.
  - intros [n o d]. constructor; [apply nat_R_refl| |]; apply option_R_refl; apply nat_R_refl.
  - intros [u d l]. constructor; apply nat_R_refl.
Qed.
Lemma options_R_refl o : SM_o_Types_o_options_R o o.
Proof. destruct o. constructor; apply bool_R_refl. Qed.
Lemma lpar_R_eq a b : SM_o_Expr_o_lpar_R a b -> a = b.
Proof. destruct 1; reflexivity. Qed.

(* ---- the relation "the tree denotes the real" ---- *)
Section Eval.
Variable env : ident -> R.
Definition rho (e : expr) (r : R) : Prop := eval env e = r.

Lemma Num_rho : SM_o_Num_o_Num_R expr R rho NumExpr NumR.
Proof.
  unfold NumExpr, NumR, rho. constructor; simpl; intros; subst; try reflexivity.
  match goal with H : Coq_o_QArith_o_QArith_base_o_Q_R _ _ |- _ => apply Q_R_eq in H; subst end.
  reflexivity.
Qed.

Definition np_engine_rho := SM_o_Engine_o_np_engine_R expr R rho NumExpr NumR Num_rho.
Definition cs_engine_rho := SM_o_Engine_o_cs_engine_R expr R rho NumExpr NumR Num_rho.

(* evaluation of a whole result *)
Definition eval_out (o : step_out (A:=expr)) : step_out (A:=R) :=
  {| o_links := map (fun x => (fst x, (map (eval env) (fst (snd x)), map (eval env) (snd (snd x)))))
                    (o_links o);
     o_queues := map (fun x => (fst x, option_map (eval env) (snd x))) (o_queues o) |}.
Definition eval_res (r : res (step_out (A:=expr))) : res (step_out (A:=R)) :=
  match r with Ok o => Ok (eval_out o) | Err e => Err e end.

Lemma list_rho_map l1 l2 : list_R expr R rho l1 l2 -> map (eval env) l1 = l2.
Proof. induction 1; simpl; [reflexivity|]. unfold rho in *. congruence. Qed.

Lemma res_rho r1 r2 :
  SM_o_Blocks_o_res_R step_out step_out (SM_o_Blocks_o_step_out_R expr R rho) r1 r2 ->
  eval_res r1 = r2.
Proof.
  destruct 1 as [o1 o2 Ho|e1 e2 He]; simpl.
  - f_equal. destruct Ho as [l1 l2 Hl q1 q2 Hq]. unfold eval_out. simpl. f_equal.
    + clear Hq. induction Hl as [|x1 x2 Hx t1 t2 Ht IH]; simpl; [reflexivity|]. f_equal; [|exact IH].
      destruct Hx as [n1 n2 Hn p1 p2 Hp]. destruct Hp as [a1 a2 Ha b1 b2 Hb]. simpl.
      apply nat_R_eq in Hn. apply list_rho_map in Ha. apply list_rho_map in Hb. congruence.
    + clear Hl. induction Hq as [|x1 x2 Hx t1 t2 Ht IH]; simpl; [reflexivity|]. f_equal; [|exact IH].
      destruct Hx as [n1 n2 Hn p1 p2 Hp]. apply nat_R_eq in Hn. simpl.
      destruct Hp as [a1 a2 Ha|]; simpl; unfold rho in *; congruence.
  - destruct He; reflexivity.
Qed.

(* the abstraction theorem at rho *)
Theorem eval_step (E1 : engine expr) (E2 : engine R) :
  SM_o_Engine_o_engine_R expr R rho E1 E2 ->
  forall U (P1 : params expr) (P2 : params R) g opts (st1 : state expr) (st2 : state R),
    SM_o_Types_o_params_R expr R rho P1 P2 ->
    SM_o_Types_o_state_R expr R rho st1 st2 ->
    eval_res (network_step E1 U P1 g opts st1) = network_step E2 U P2 g opts st2.
Proof.
  intros HE U P1 P2 g opts st1 st2 HP Hst. apply res_rho.
  apply (SM_o_Blocks_o_network_step_R expr R rho NumExpr NumR Num_rho E1 E2 HE U U (universe_R_refl U)
           P1 P2 HP g g (graph_R_refl g) opts opts (options_R_refl opts) st1 st2 Hst).
Qed.
End Eval.
