(* GlueMETANET.v - C01 for the regenerated glue: compose step_is_METANET with the tie of BlocksTie.v *)
From Coq Require Import Reals List.
From SM Require Import Num NumR Graph Engine Expr Types Blocks Spec Validity.
From SM.specs Require Import GraphWF C01_spec Glue_spec.
From SM.proofs Require Import StepSpec StepExample BlocksTie.

Lemma regenerated_from_model (E : engine R) : step_is_METANET E -> regenerated_step_is_METANET E.
Proof.
  intros H U P g st Hwf Hv Hl Ht Hc.
  destruct (H U P g st Hwf Hv Hl Ht Hc) as (out & Hstep & Hlinks & Horig).
  exists out. split; [|split; assumption].
  apply generated_step_value. exact Hstep.
Qed.

Lemma np_regenerated_step_is_METANET : regenerated_step_is_METANET (@np_engine R NumR).
Proof. apply regenerated_from_model, np_step_is_METANET. Qed.

Lemma cs_regenerated_step_is_METANET : regenerated_step_is_METANET (@cs_engine R NumR).
Proof. apply regenerated_from_model, cs_step_is_METANET. Qed.

(* non-vacuity: the example network of C01 (2x2 junction with a ramp, a VSL link, a 1-segment link) *)
Lemma regenerated_example_steps :
  exists out, gen_network_step (@np_engine R NumR) exU' exP exG no_options exSt = Ok out.
Proof.
  destruct example_ok as (Hwf & Hv & Hl & Ht & Hc).
  destruct (np_regenerated_step_is_METANET exU' exP exG exSt Hwf Hv Hl Ht Hc) as (out & H & _).
  exists out. exact H.
Qed.
