From Coq Require Import List String.
From SM.specs Require Import Pin_validity_spec.
From SM.gen Require Import Pin_validity.

Lemma pin_validity_expected : validity_source_as_modelled pin_validity.
Proof. reflexivity. Qed.
