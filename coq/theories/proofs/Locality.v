From Coq Require Import Reals List Lia.
From SM Require Import Num NumR Graph Expr Types Spec.
From SM.specs Require Import C10_spec.
From Coq Require Import List.
Import ListNotations.
Local Open Scope R_scope.

Section Loc.
Variable U : universe.
Variable P : params R.
Variable g : graph.
Variables st st' : state R.

Lemma sflow_eq m i : seg_eq st st' m i -> sflow U st m i = sflow U st' m i.
Proof. intros [H1 H2]. unfold sflow. rewrite H1, H2. reflexivity. Qed.

Lemma ssum_ext {T} (f h : T -> R) l : (forall x, In x l -> f x = h x) -> ssum f l = ssum h l.
Proof.
  unfold ssum. induction l as [|x l IH]; intros H; cbn [fold_right]; [reflexivity|].
  rewrite (H x (or_introl eq_refl)), IH by (intros; apply H; right; auto). reflexivity.
Qed.

Lemma sorigin_flow_eq o m :
  s_w st o = s_w st' o -> s_do st o = s_do st' o -> s_uo st o = s_uo st' o -> seg_eq st st' m 0 ->
  sorigin_flow U P st o m = sorigin_flow U P st' o m.
Proof.
  intros Hw Hd Hu [Hr Hv]. unfold sorigin_flow.
  destruct (okind_of U o) as [| |[]|[]];
    unfold sdemand, sspace, smain_qlim, smain_qspeed, sflow; unfold smain_vlim;
    rewrite ?Hw, ?Hd, ?Hu, ?Hr, ?Hv; reflexivity.
Qed.

Lemma snode_origin_flow_eq n : origin_eq g st st' n ->
  snode_origin_flow U P g st n = snode_origin_flow U P g st' n.
Proof.
  unfold origin_eq, snode_origin_flow. destruct (origin_at g n) as [o|]; [|reflexivity].
  destruct (out_links g n) as [|e1 l]; [reflexivity|].
  intros (Hw & Hd & Hu & Hs). apply sorigin_flow_eq; assumption.
Qed.

Lemma sinflow_eq e : upstream_eq U g st st' e -> sinflow U P g st e = sinflow U P g st' e.
Proof.
  intros [Hin Ho]. unfold sinflow, snode_Q. rewrite (snode_origin_flow_eq _ Ho).
  rewrite (ssum_ext (slast_q U st) (slast_q U st')); [reflexivity|].
  intros x Hx. unfold slast_q. apply sflow_eq. apply Hin. exact Hx.
Qed.

Lemma supspeed_eq e : upstream_eq U g st st' e -> svel st (e_link e) 0 = svel st' (e_link e) 0 ->
  supspeed U g st e = supspeed U g st' e.
Proof.
  intros [Hin _] H0. unfold supspeed.
  assert (Hv : forall x, In x (in_links g (e_up e)) -> slast_v U st x = slast_v U st' x).
  { intros x Hx. unfold slast_v. apply (Hin x Hx). }
  assert (Hq : forall x, In x (in_links g (e_up e)) -> slast_q U st x = slast_q U st' x).
  { intros x Hx. unfold slast_q. apply sflow_eq. apply Hin. exact Hx. }
  destruct (in_links g (e_up e)) as [|e1 [|e2 l]] eqn:E.
  - exact H0.
  - apply Hv. left. reflexivity.
  - rewrite (ssum_ext _ (fun x => mul (slast_v U st' x) (slast_q U st' x))).
    2:{ intros x Hx. rewrite (Hv x Hx), (Hq x Hx). reflexivity. }
    rewrite (ssum_ext (slast_q U st) (slast_q U st')) by exact Hq. reflexivity.
Qed.

Lemma sdowndens_eq e :
  downstream_eq g st st' e ->
  srho st (e_link e) (slastseg U (e_link e)) = srho st' (e_link e) (slastseg U (e_link e)) ->
  sdowndens U P g st e = sdowndens U P g st' e.
Proof.
  unfold downstream_eq, sdowndens. intros Hd Hl. destruct (dest_at g (e_down e)) as [d|].
  - rewrite Hl, Hd. reflexivity.
  - destruct (out_links g (e_down e)) as [|e1 [|e2 l]] eqn:E.
    + reflexivity.
    + apply Hd. left. reflexivity.
    + rewrite (ssum_ext _ (fun x => sq (srho st' (e_link x) 0))).
      2:{ intros x Hx. rewrite (Hd x Hx). reflexivity. }
      rewrite (ssum_ext (fun x => srho st (e_link x) 0) (fun x => srho st' (e_link x) 0)) by exact Hd.
      reflexivity.
Qed.

Theorem locality_proof : locality U P g st st'.
Proof.
  split; [|split].
  - intros e i [Hs Hup]. unfold spec_rho_next, sq_up.
    rewrite (sflow_eq _ _ Hs). destruct Hs as [Hr _]. rewrite Hr.
    destruct (Nat.eqb i 0).
    + rewrite (sinflow_eq _ Hup). reflexivity.
    + rewrite (sflow_eq _ _ Hup). reflexivity.
  - intros e i (Hs & Hup & Hdn & Hvc). destruct Hs as [Hr Hv].
    assert (HV : sV U P st (e_link e) i = sV U P st' (e_link e) i).
    { unfold sV, sVeq. rewrite Hr. destruct (lvsl (linkd U (e_link e))); [|reflexivity].
      destruct (index_of i l); [rewrite Hvc|]; reflexivity. }
    assert (Hvu : sv_up U g st e i = sv_up U g st' e i).
    { unfold sv_up. destruct (Nat.eqb i 0) eqn:E0; [|exact Hup].
      apply Nat.eqb_eq in E0. subst i. apply supspeed_eq; assumption. }
    assert (Hrd : srho_down U P g st e i = srho_down U P g st' e i).
    { unfold srho_down. destruct (Nat.eqb i (slastseg U (e_link e))) eqn:El; [|exact Hdn].
      apply Nat.eqb_eq in El. subst i. apply sdowndens_eq; assumption. }
    assert (Hmg : Nat.eqb i 0 = true -> smerge U P g st e = smerge U P g st' e).
    { intros E0. rewrite E0 in Hup. unfold smerge. destruct Hup as [_ Ho].
      rewrite (snode_origin_flow_eq _ Ho). reflexivity. }
    unfold spec_v_next. cbv zeta. rewrite Hr, Hv, HV, Hvu, Hrd.
    destruct (Nat.eqb i 0) eqn:E0; [rewrite (Hmg eq_refl)|]; reflexivity.
  - intros n o e1 l Ho Hout He. unfold origin_eq in He. rewrite Ho, Hout in He.
    destruct He as (Hw & Hd & Hu & Hs). unfold spec_w_next.
    rewrite (sorigin_flow_eq o (e_link e1) Hw Hd Hu Hs), Hw, Hd. reflexivity.
Qed.
End Loc.
