From Coq Require Import List String.
From SM.specs Require Import Pin_compile_spec.
From SM.gen Require Import Pin_compile.

Lemma pin_compile_expected : compile_source_as_modelled pin_compile.
Proof. reflexivity. Qed.
