(* C02 and C10 on the element-layer model: C01's theorem (for the regenerated engines) composed with the
   theorems about the specification *)
From Coq Require Import Reals List Lia.
From SM Require Import Num NumR Graph Engine Expr Types Blocks Spec Validity.
From SM.specs Require Import GraphWF C01_spec C02_spec C10_spec.
From SM.proofs Require Import Conservation Locality C14_proofs.
From Coq Require Import List.
Import ListNotations.
Local Open Scope R_scope.

Theorem model_conserves_proof E : step_is_METANET E -> model_conserves E.
Proof.
  intros HE U P g st WFG V WL HT HR HL HS.
  destruct (HE U P g st WFG V WL HT HR) as (out & S & FL & FQ).
  assert (HN : forall e, In e (g_edges g) -> (1 <= sN U (e_link e))%nat).
  { intros e He. destruct (WL e He) as (H & _). exact H. }
  destruct (conservation_proof U P g st WFG V HL HS HN) as [NB NW].
  exists out. repeat split; assumption.
Qed.

Theorem model_locality_proof E : step_is_METANET E -> model_locality E.
Proof.
  intros HE U P g st st' WFG V WL WL' HT HR.
  destruct (HE U P g st WFG V WL HT HR) as (out & S & FL & _).
  destruct (HE U P g st' WFG V WL' HT HR) as (out' & S' & FL' & _).
  exists out, out'. split; [exact S|]. split; [exact S'|].
  intros e r r' Hr Hr' i Hi.
  destruct (Forall2_combine_In _ _ _ _ _ FL Hr) as (_ & _ & _ & H).
  destruct (Forall2_combine_In _ _ _ _ _ FL' Hr') as (_ & _ & _ & H').
  destruct (H i Hi) as [A1 A2]. destruct (H' i Hi) as [B1 B2].
  destruct (locality_proof U P g st st') as (L1 & L2 & _).
  split; intros Hnb.
  - rewrite A1, B1. apply L1. exact Hnb.
  - rewrite A2, B2. apply L2. exact Hnb.
Qed.
