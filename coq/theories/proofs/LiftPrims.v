(* LiftPrims.v — every remaining primitive of the NumPy-derived engine, run on finite numbers injected
   into the partial reals, is defined and equals the injection of its value over the reals, on its
   admissible domain (exact zeros included).  Together with EnginesFin.v (link laws) this covers the
   whole engine record; Lifted.v composes them through the element layer. *)
From Coq Require Import Reals Qreals List Lia Lra String.
From SM Require Import Num NumR NumPR.
From SM.gen Require Import EnginesNp.
From SM.specs Require Import C15fin_spec.
From SM.proofs Require Import VecR PrimR EnginesEq EnginesFin.
From Coq Require Import List.
Import ListNotations.
Local Open Scope R_scope.

Lemma somes_length l : List.length (somes l) = List.length l.
Proof. unfold somes. apply map_length. Qed.
Lemma somes_app a b : somes (a ++ b) = (somes a ++ somes b)%list.
Proof. unfold somes. apply map_app. Qed.
Lemma somes_inj a b : somes a = somes b -> a = b.
Proof.
  unfold somes. revert b. induction a as [|x a IH]; intros [|y b] H; simpl in H; try discriminate; [reflexivity|].
  inversion H. f_equal. apply IH. assumption.
Qed.

Lemma fold_left_pr2_plus l a : fold_left (pr2 Rplus) (somes l) (Some a) = Some (fold_left Rplus l a).
Proof. revert a. induction l as [|x l IH]; intros a; [reflexivity|]. cbn [somes map fold_left pr2]. apply IH. Qed.
Lemma vsum_somes l : @vsum PR NumPR (somes l) = Some (@vsum R NumR l).
Proof.
  destruct l as [|x l]; [reflexivity|]. unfold vsum. cbn [somes map].
  change (@add PR NumPR) with (pr2 Rplus). change (@add R NumR) with Rplus. apply fold_left_pr2_plus.
Qed.

(* ---- nodes ---- *)
Lemma np_up_flow_lift q b bs qo :
  @vsum R NumR bs <> 0 ->
  @Np.nodes_get_upstream_flow PR NumPR (somes q) (Some b) (somes bs) (option_map Some qo) =
  Some (@Np.nodes_get_upstream_flow R NumR q b bs qo).
Proof.
  intros H. unfold Np.nodes_get_upstream_flow. cbv zeta. rewrite !vsum_somes. numPR.
  rewrite (pr_div_ok b _ H). destruct qo as [x|]; reflexivity.
Qed.
Lemma np_up_speed_lift q v :
  @vsum R NumR q <> 0 ->
  @Np.nodes_get_upstream_speed PR NumPR (somes q) (somes v) = Some (@Np.nodes_get_upstream_speed R NumR q v).
Proof.
  intros H. unfold Np.nodes_get_upstream_speed. numPR. rewrite vv_pr2, !vsum_somes. apply pr_div_ok. exact H.
Qed.
Lemma np_down_dens_lift r :
  @vsum R NumR r <> 0 ->
  @Np.nodes_get_downstream_density PR NumPR (somes r) = Some (@Np.nodes_get_downstream_density R NumR r).
Proof.
  intros H. unfold Np.nodes_get_downstream_density. numPR. rewrite map_pr1, !vsum_somes. apply pr_div_ok. exact H.
Qed.

(* ---- destinations, queue update, clamps, concatenation: total ---- *)
Lemma np_dfree_lift r rc :
  @Np.destinations_get_congestion_free_downstream_density PR NumPR (Some r) (Some rc) =
  Some (@Np.destinations_get_congestion_free_downstream_density R NumR r rc).
Proof. reflexivity. Qed.
Lemma np_dcong_lift r d rc :
  @Np.destinations_get_congested_downstream_density PR NumPR (Some r) (Some d) (Some rc) =
  Some (@Np.destinations_get_congested_downstream_density R NumR r d rc).
Proof. reflexivity. Qed.
Lemma np_step_queue_lift w d q T :
  @Np.origins_step_queue PR NumPR (Some w) (Some d) (Some q) (Some T) = Some (@Np.origins_step_queue R NumR w d q T).
Proof. reflexivity. Qed.
Lemma np_max_lift a l : @Np.engine_max PR NumPR (Some a) (somes l) = somes (@Np.engine_max R NumR a l).
Proof. unfold Np.engine_max. numPR. apply sv_pr2. Qed.
Lemma np_max_s_lift a b : @Np.engine_max_s PR NumPR (Some a) (Some b) = Some (@Np.engine_max_s R NumR a b).
Proof. reflexivity. Qed.
Lemma np_vcat_lift (ls : list (list R)) : @Np.engine_vcat PR (map somes ls) = somes (@Np.engine_vcat R ls).
Proof.
  unfold Np.engine_vcat. induction ls as [|l ls IH]; [reflexivity|]. cbn [map concat]. rewrite IH, somes_app. reflexivity.
Qed.

(* ---- speed-limited equilibrium speed ---- *)
Lemma nth_somes i l : nth i (somes l) (@zero PR NumPR) = Some (nth i l (@zero R NumR)).
Proof.
  unfold somes. revert i. induction l as [|x l IH]; intros [|i]; simpl; try reflexivity. apply IH.
Qed.
Lemma gather_somes idx l : gather idx (somes l) = somes (gather idx l).
Proof. unfold gather, somes. rewrite map_map. apply map_ext. intros i. apply nth_somes. Qed.
Lemma set_nth_somes i y l : set_nth i (Some y) (somes l) = somes (set_nth i y l).
Proof.
  unfold somes. revert l. induction i as [|i IH]; intros [|x l]; simpl; try reflexivity. rewrite IH. reflexivity.
Qed.
Lemma scatter_somes idx vals l : scatter idx (somes vals) (somes l) = somes (scatter idx vals l).
Proof.
  revert vals l. induction idx as [|i idx IH]; intros [|y vals] l; try reflexivity.
  cbn [scatter somes map]. rewrite set_nth_somes. apply IH.
Qed.
Lemma np_cVeq_lift rho vc vsl al vf rc a :
  Forall (fun x => 0 <= x) rho -> 0 < rc -> 0 < a ->
  @Np.links_controlled_Veq PR NumPR (somes rho) (somes vc) vsl (Some al) (Some vf) (Some rc) (Some a) =
  somes (@Np.links_controlled_Veq R NumR rho vc vsl al vf rc a).
Proof.
  intros Hr Hrc Ha. unfold Np.links_controlled_Veq. cbv zeta.
  rewrite (np_Veq_finite rho vf rc a Hr Hrc Ha). rewrite gather_somes. numPR. cbn [pr2].
  rewrite sv_pr2, vv_pr2, scatter_somes. reflexivity.
Qed.

(* ---- origin laws (the mainstream law has the log-ratio guard that keeps zero speed finite) ---- *)
Lemma np_main_lift d w vctrl v1 rc a vf lanes T :
  0 < T -> 0 <= vctrl -> 0 <= v1 -> 0 < rc -> 0 < a -> 0 < vf ->
  @Np.origins_get_mainstream_flow PR NumPR (Some d) (Some w) (Some vctrl) (Some v1) (Some rc) (Some a) (Some vf)
     (Some lanes) (Some T) =
  Some (@Np.origins_get_mainstream_flow R NumR d w vctrl v1 rc a vf lanes T).
Proof.
  intros HT Hvc Hv1 Hrc Ha Hvf.
  unfold Np.origins_get_mainstream_flow, Np.links_Veq_s. cbv zeta.
  cbn [ofQ add sub mul div neg sq nexp nlog npow nmin nmax iflt NumPR NumR pr2 pr1].
  rewrite (pr_div_ok rc rc) by lra.
  assert (H1 : 0 <= rc / rc) by (replace (rc / rc) with 1 by (field; lra); lra).
  rewrite (pr_pow_ok _ a H1 Ha).
  rewrite (pr_div_ok (Q2R (-1 # 1)) a) by lra. cbn [pr2 pr1].
  rewrite (pr_div_ok (Rmin vctrl v1) vf) by lra. cbn [pr2].
  set (ratio := Rmax (Q2R (1 # 20)) (Rmin (Q2R (1 # 1)) (Rmin vctrl v1 / vf))).
  assert (Hr0 : 0 < ratio).
  { unfold ratio. eapply Rlt_le_trans; [|apply Rmax_l]. rewrite Q2R_1_20. lra. }
  assert (Hr1 : ratio <= 1).
  { unfold ratio. apply Rmax_lub; [rewrite Q2R_1_20; lra|]. eapply Rle_trans; [apply Rmin_l|]. rewrite Q2R_1. lra. }
  unfold pr_log. destruct (Rlt_dec 0 ratio) as [_|C]; [|contradiction]. cbn [pr1 pr2].
  rewrite (pr_div_ok (Q2R (1 # 1)) a) by lra.
  assert (Hb : 0 <= - a * ln ratio).
  { assert (ln ratio <= 0).
    { destruct (Req_dec ratio 1) as [->|Hne]; [rewrite ln_1; lra|]. left. rewrite <- ln_1. apply ln_increasing; lra. }
    replace (- a * ln ratio) with (a * - ln ratio) by ring. apply Rmult_le_pos; lra. }
  assert (Hexp : 0 < Q2R (1 # 1) / a).
  { rewrite Q2R_1. apply Rmult_lt_0_compat; [lra|apply Rinv_0_lt_compat; exact Ha]. }
  rewrite (pr_pow_ok _ _ Hb Hexp). cbn [pr2].
  rewrite (pr_div_ok w T) by lra. cbn [pr2]. unfold pr_iflt.
  destruct (Rlt_dec _ _); reflexivity.
Qed.

Lemma np_ramp_lift d w C r rmax r1 rc T ty :
  0 < T -> rc < rmax ->
  @Np.origins_get_ramp_flow PR NumPR (Some d) (Some w) (Some C) (Some r) (Some rmax) (Some r1) (Some rc) (Some T) ty =
  Some (@Np.origins_get_ramp_flow R NumR d w C r rmax r1 rc T ty).
Proof.
  intros HT Hrc. unfold Np.origins_get_ramp_flow. cbv zeta.
  cbn [ofQ add sub mul div neg nmin nmax NumPR NumR pr2 pr1].
  rewrite (pr_div_ok w T) by lra. rewrite (pr_div_ok (rmax - r1) (rmax - rc)) by lra.
  destruct (String.eqb ty "in"); reflexivity.
Qed.

Lemma np_simp_lift q d w C rmax r1 rc T ty :
  0 < T -> rc < rmax ->
  @Np.origins_get_simplifiedramp_flow PR NumPR (Some q) (Some d) (Some w) (Some C) (Some rmax) (Some r1) (Some rc)
     (Some T) ty =
  Some (@Np.origins_get_simplifiedramp_flow R NumR q d w C rmax r1 rc T ty).
Proof.
  intros HT Hrc. unfold Np.origins_get_simplifiedramp_flow. cbv zeta.
  destruct (String.eqb ty "unlimited"); [reflexivity|].
  cbn [ofQ add sub mul div neg nmin nmax NumPR NumR pr2 pr1].
  rewrite (pr_div_ok w T) by lra. rewrite (pr_div_ok (rmax - r1) (rmax - rc)) by lra. reflexivity.
Qed.
