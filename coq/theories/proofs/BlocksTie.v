(* BlocksTie.v - the hand-written element-layer model (Blocks.v), on which every theorem of the development
   rests, equals the model REGENERATED from blocks/{links,nodes,origins,destinations}.py by translator/blocks.py
   (gen/BlocksGen.v).  A change of the Python glue changes the generated definitions; the equalities below then no
   longer hold (or no longer type-check) and every property that is stated about Blocks.v loses its tie to the
   code.

   Values: equal.  Errors: the generated model raises a Python failure where and when Python does (a source node
   without origin hands None to the link, which fails when it uses it; Blocks.v fails in the node already), so
   the statements are "equal results, or both fail" (res_sim). *)
From Coq Require Import QArith List String Arith Bool.
From SM Require Import Num Graph Engine Expr Types Blocks.
From SM.gen Require Import BlocksGen.
From SM.specs Require Import Glue_spec.
Import ListNotations.

Lemma res_sim_refl {T} (a : res T) : res_sim a a.
Proof. destruct a; simpl; auto. Qed.

Lemma res_sim_eq {T} (a b : res T) : a = b -> res_sim a b.
Proof. intros ->; apply res_sim_refl. Qed.

Lemma mapM_ok {T V} (f : T -> V) (l : list T) : mapM (fun x => Ok (f x)) l = Ok (map f l).
Proof. induction l as [|x xs IH]; simpl; [reflexivity|]. rewrite IH. reflexivity. Qed.

Lemma bind_ret {T} (x : res T) : (r <- x ;; Ok r) = x.
Proof. destruct x; reflexivity. Qed.

Lemma res_sim_bind {T V} (a b : res T) (k1 k2 : T -> res V) :
  a = b -> (forall x, res_sim (k1 x) (k2 x)) -> res_sim (bind a k1) (bind b k2).
Proof. intros -> H. destruct b; simpl; auto. Qed.

Lemma bind_assoc {T V W} (a : res T) (k : T -> res V) (h : V -> res W) :
  bind (bind a k) h = bind a (fun x => bind (k x) h).
Proof. destruct a; reflexivity. Qed.

Lemma res_sim_bind_sim {T V} (a b : res T) (k1 k2 : T -> res V) :
  res_sim a b -> (forall x, res_sim (k1 x) (k2 x)) -> res_sim (bind a k1) (bind b k2).
Proof. destruct a, b; simpl; intros H K; try contradiction; auto. subst; apply K. Qed.

Lemma mapM_res_sim {T V} (f h : T -> res V) (l : list T) :
  (forall x, res_sim (f x) (h x)) -> res_sim (mapM f l) (mapM h l).
Proof.
  intros H. induction l as [|x xs IH]; simpl; [reflexivity|].
  apply res_sim_bind_sim; [apply H|]. intros y.
  apply res_sim_bind_sim; [exact IH|]. intros ys. reflexivity.
Qed.

Section Tie.
Context {A : Type} {NA : Num A}.
Variable E : engine A.
Variable U : universe.
Variable P : params A.
Variable g : graph.
Variable st : state A.

Lemma link_flow_tie m : gd_link_flow E U st m = Ok (link_flow E U st m).
Proof. reflexivity. Qed.

Lemma exiting_link_tie o : g_Origin___get_exiting_link g o = exiting_link g o.
Proof.
  unfold g_Origin___get_exiting_link, exiting_link, of_opt, first_edge.
  destruct (dict_get o (origins_dict g)) as [n|]; simpl; [|reflexivity].
  destruct (out_links g n) as [|e [|e' l]]; reflexivity.
Qed.

Lemma entering_link_tie d : g_Destination___get_entering_link g d = entering_link g d.
Proof.
  unfold g_Destination___get_entering_link, entering_link, of_opt, first_edge.
  destruct (dict_get d (dests_dict g)) as [n|]; simpl; [|reflexivity].
  destruct (in_links g n) as [|e [|e' l]]; reflexivity.
Qed.

Lemma origin_speed_tie o T : gd_origin_speed g st o T = origin_speed g st o.
Proof.
  unfold gd_origin_speed, g_Origin__get_speed, origin_speed. rewrite exiting_link_tie.
  destruct (exiting_link g o); reflexivity.
Qed.

Lemma origin_flow_tie o : gd_origin_flow E U P g st o (gT P) = origin_flow E U P g st o.
Proof.
  unfold gd_origin_flow, origin_flow, g_Origin__get_flow, g_MainstreamOrigin__get_flow,
    g_MeteredOnRamp__get_flow, g_SimplifiedMeteredOnRamp__get_flow, g_Link__get_flow, flow_eq_type_of, link_flow, lanes.
  rewrite !exiting_link_tie.
  destruct (okind_of U o) as [| |[|]|[|]]; destruct (exiting_link g o); reflexivity.
Qed.

Lemma dest_density_tie d : gd_dest_density E U P g st d = dest_density E U P g st d.
Proof.
  unfold gd_dest_density, dest_density, g_Destination__get_density, g_CongestedDestination__get_density.
  rewrite !entering_link_tie.
  destruct (dkind_of U d); destruct (entering_link g d); reflexivity.
Qed.

Ltac mapM_is f :=
  match goal with |- context [mapM ?h ?l] =>
    replace (mapM h l) with (Ok (map f l)) by (symmetry; exact (mapM_ok f l)) end.

Lemma node_down_tie n : gd_node_down E U P g st n = node_down_density E U P g st n.
Proof.
  unfold gd_node_down, g_Node__get_downstream_density, node_down_density.
  destruct (dest_at g n) as [d|]; simpl.
  - rewrite bind_ret. apply dest_density_tie.
  - mapM_is (fun e : edge => [vfirst (s_rho st (e_link e))]).
    destruct (out_links g n) as [|e [|e' l]]; reflexivity.
Qed.

Definition both {T} (vq : option T * option T) : res (T * T) :=
  match vq with (Some v, Some q) => Ok (v, q) | _ => Err ENoneFlow end.

Lemma node_up_tie n m : out_links g n <> [] ->
  (vq <- gd_node_up E U P g st n m (gT P) ;; both vq) = node_up_speed_flow E U P g st n m.
Proof.
  intros Hout.
  unfold gd_node_up, g_Node__get_upstream_speed_and_flow, node_up_speed_flow.
  repeat mapM_is (fun e : edge => [lp P (e_link e) Pturn]).
  mapM_is (fun e : edge => [vlast (s_v st (e_link e))]).
  mapM_is (fun e : edge => [vlast (link_flow E U st (e_link e))]).
  destruct (origin_at g n) as [o|]; cbn [is_some of_opt bind].
  - change (g_Origin__get_speed g st o (gT P)) with (gd_origin_speed g st o (gT P)).
    fold (gd_origin_flow E U P g st o (gT P)).
    rewrite origin_speed_tie, origin_flow_tie.
    destruct (origin_speed g st o) as [vo|]; cbn [bind]; [|reflexivity].
    destruct (origin_flow E U P g st o) as [qo|]; cbn [bind]; [|reflexivity].
    destruct (in_links g n) as [|e [|e2 l]]; [reflexivity| |];
      destruct (out_links g n) as [|o1 [|o2 ol]]; try (exfalso; apply Hout; reflexivity); reflexivity.
  - destruct (in_links g n) as [|e [|e2 l]]; [reflexivity| |];
      destruct (out_links g n) as [|o1 [|o2 ol]]; try (exfalso; apply Hout; reflexivity); reflexivity.
Qed.

Lemma links_in_edges' e : In e (links g) -> In e (g_edges g).
Proof.
  unfold links. intros H. apply in_flat_map in H. destruct H as (ne & _ & H). unfold out_links in H.
  apply filter_In in H. apply H.
Qed.
Lemma nodes_of_link_out' m u d : nodes_of_link g m = Some (u, d) -> out_links g u <> [].
Proof.
  unfold nodes_of_link. destruct (find _ _) as [e|] eqn:Hf; [|discriminate]. intros H. inversion H; subst.
  apply find_some in Hf. destruct Hf as [Hin _]. apply in_rev in Hin. apply links_in_edges' in Hin.
  intros Hnil. assert (Hx : In e (out_links g (e_up e))).
  { unfold out_links. apply filter_In. split; [exact Hin|apply Nat.eqb_refl]. }
  rewrite Hnil in Hx. destruct Hx.
Qed.

(* Link.step_dynamics (links.py) against link_raw + the positive_next_* clamps of link_step *)
Definition clamped (opts : options) (rv : list A * list A) : list A * list A :=
  (if pn_rho opts then e_max E zero (fst rv) else fst rv, if pn_v opts then e_max E zero (snd rv) else snd rv).

Lemma link_step_dynamics_tie opts m :
  res_sim (gd_link_step E U P g st m (gtau P) (geta P) (gkappa P) (gT P) (gdelta P) (gphi P) (pn_v opts) (pn_rho opts))
          (rv <- link_raw E U P g st m ;; Ok (clamped opts rv)).
Proof.
  unfold gd_link_step, g_Link__step_dynamics, link_raw, link_raw_V, clamped.
  destruct (nodes_of_link g m) as [[u d]|] eqn:Hud; cbn [of_opt bind fst snd]; [|exact I].
  rewrite <- (node_up_tie u m (nodes_of_link_out' m u d Hud)).
  change (g_Node__get_upstream_speed_and_flow E U P g st u m (gT P)) with (gd_node_up E U P g st u m (gT P)).
  change (g_Node__get_downstream_density E U P g st d) with (gd_node_down E U P g st d).
  rewrite node_down_tie.
  destruct (gd_node_up E U P g st u m (gT P)) as [[ov oq]|e]; cbn [bind]; [|exact I].
  destruct (node_down_density E U P g st d) as [rN|e]; cbn [bind].
  2:{ destruct ov, oq; exact I. }
  destruct ov as [v0|], oq as [q0|]; cbn [both bind];
    try (destruct (1 <? lN (linkd U m))%nat; exact I).
  change (g_Link__get_flow E U st m) with (Ok (link_flow E U st m)). cbn [bind].
  destruct (1 <? lN (linkd U m))%nat; cbn [of_opt bind fst snd].
  all: rewrite bind_assoc; apply res_sim_bind.
  all: try (intros q_ramp;
    destruct (gphi P) as [ph|]; cbn [bind];
    [ destruct (out_links g d) as [|e1 [|e2 l]]; cbn [List.length Nat.eqb first_edge bind optq_eq0];
      [ | destruct (Qeq_bool (llanes (linkd U m) - llanes (linkd U (e_link e1))) 0) | ] | ];
    unfold link_Veq, g_Link___get_equilibrium_speed, g_LinkWithVsl___get_equilibrium_speed, lvsl_of, lanes;
    destruct (lvsl (linkd U m)) as [vsl|]; cbn [bind option_map];
    destruct (pn_rho opts), (pn_v opts); reflexivity).
  all: unfold is_some, g_MeteredOnRamp__get_flow, g_SimplifiedMeteredOnRamp__get_flow, origin_flow, flow_eq_type_of;
    destruct (gdelta P) as [dl|]; [|reflexivity];
    destruct (origin_at g u) as [o|]; [|reflexivity]; cbn [andb of_opt bind];
    destruct (in_links g u) as [|e1 l1]; [reflexivity|]; cbn [List.length Nat.ltb Nat.leb bind];
    destruct (okind_of U o) as [| |[|]|[|]]; cbn [is_ramp bind]; try reflexivity;
    rewrite ?exiting_link_tie; destruct (exiting_link g o); reflexivity.
Qed.

Lemma link_step_tie opts m :
  res_sim (r <- gd_link_step E U P g st m (gtau P) (geta P) (gkappa P) (gT P) (gdelta P) (gphi P) (pn_v opts) (pn_rho opts) ;;
           shape_checked st m r)
          (link_step E U P g st opts m).
Proof.
  assert (H : link_step E U P g st opts m = (r <- (rv <- link_raw E U P g st m ;; Ok (clamped opts rv)) ;; shape_checked st m r)).
  { unfold link_step, shape_checked, clamped. destruct (link_raw E U P g st m) as [[r v]|e]; reflexivity. }
  rewrite H. apply res_sim_bind_sim; [apply link_step_dynamics_tie|]. intros x. apply res_sim_refl.
Qed.

(* the step_dynamics of the origin classes that declare a state (origins.py) against origin_step *)
Lemma origin_step_tie opts o : is_queued (okind_of U o) = true ->
  (r <- gd_origin_step E U P g st o (gtau P) (geta P) (gkappa P) (gT P) (gdelta P) (gphi P) (pn_w opts) ;; Ok (Some r))
  = origin_step E U P g st opts o.
Proof.
  intros Hq.
  unfold gd_origin_step, origin_step, g_MainstreamOrigin__step_dynamics, g_MeteredOnRamp__step_dynamics,
    g_MainstreamOrigin__get_flow_1, g_MeteredOnRamp__get_flow_1, g_SimplifiedMeteredOnRamp__get_flow_1,
    origin_flow, flow_eq_type_of, lanes.
  rewrite Hq, !exiting_link_tie.
  destruct (okind_of U o) as [| |[|]|[|]]; try discriminate Hq;
    destruct (exiting_link g o); cbn [bind]; try reflexivity; destruct (pn_w opts); reflexivity.
Qed.

Lemma origin_step_unqueued opts o : is_queued (okind_of U o) = false -> origin_step E U P g st opts o = Ok None.
Proof. intros Hq. unfold origin_step. rewrite Hq. reflexivity. Qed.
End Tie.

(* ---- the whole step: Network.step's two loops (network.py, tied by the T5 facts of SourceFactsStep.v) over the
   REGENERATED element definitions, against Blocks.network_step ---- *)
Section Whole.
Context {A : Type} {NA : Num A}.
Variable E : engine A.
Variable U : universe.
Variable P : params A.
Variable g : graph.

Theorem generated_step_is_the_model opts st :
  res_sim (gen_network_step E U P g opts st) (network_step E U P g opts st).
Proof.
  unfold gen_network_step, network_step.
  apply res_sim_bind_sim.
  - apply mapM_res_sim. intros o. destruct (is_queued (okind_of U o)) eqn:Hq.
    + rewrite <- (origin_step_tie E U P g _ opts o Hq).
      destruct (gd_origin_step E U P g (init_state E opts st) o (gtau P) (geta P) (gkappa P) (gT P) (gdelta P) (gphi P) (pn_w opts));
        simpl; auto.
    + rewrite (origin_step_unqueued E U P g _ opts o Hq). simpl. reflexivity.
  - intros ws. apply res_sim_bind_sim; [|intros ls; simpl; reflexivity].
    apply mapM_res_sim. intros e.
    pose proof (link_step_tie E U P g (init_state E opts st) opts (e_link e)) as H.
    rewrite <- bind_assoc.
    apply res_sim_bind_sim; [exact H|]. intros x. simpl. reflexivity.
Qed.

(* where the model succeeds (every valid network: Steppable.v), the regenerated definitions give the same value *)
Corollary generated_step_value opts st out :
  network_step E U P g opts st = Ok out -> gen_network_step E U P g opts st = Ok out.
Proof.
  intros H. pose proof (generated_step_is_the_model opts st) as S. rewrite H in S.
  destruct (gen_network_step E U P g opts st); simpl in S; [congruence|contradiction].
Qed.
End Whole.

Theorem glue_tie : element_layer_is_the_regenerated_glue.
Proof. intros A NA E U P g opts st. apply generated_step_is_the_model. Qed.

Theorem glue_value : regenerated_glue_gives_the_model_value.
Proof. intros A NA E U P g opts st out. apply generated_step_value. Qed.

Theorem defaults_tie : element_level_defaults_as_documented.
Proof. reflexivity. Qed.

