(* Closed.v — every symbol occurring in a result of the compiled function is one of its
   arguments (C04a).  Second instantiation of the Paramcoq abstraction theorem: relate an
   expression tree to the unit value when all its symbols lie in S. *)
From Coq Require Import QArith List String Arith.
From SM Require Import Num Graph Engine Expr Types Blocks Validity ToFunction.
From SM.proofs Require Import Homomorphism.
Import ListNotations.

#[local] Instance NumUnit : Num unit := {|
  ofQ := fun _ => tt; add := fun _ _ => tt; sub := fun _ _ => tt; mul := fun _ _ => tt;
  div := fun _ _ => tt; neg := fun _ => tt; sq := fun _ => tt; nexp := fun _ => tt;
  nlog := fun _ => tt; npow := fun _ _ => tt; nmin := fun _ _ => tt; nmax := fun _ _ => tt;
  iflt := fun _ _ _ _ => tt |}.

Section Closed.
Variable S : list ident.
Definition cl (e : expr) (_ : unit) : Prop := incl (vars e) S.

Lemma incl_app3 {T} (a b c : list T) s : incl a s -> incl b s -> incl c s -> incl (a ++ b ++ c) s.
Proof. intros. repeat apply incl_app; assumption. Qed.

Lemma Num_cl : SM_o_Num_o_Num_R expr unit cl NumExpr NumUnit.
Proof.
  unfold NumExpr, NumUnit, cl. constructor; simpl; intros;
    repeat apply incl_app; try assumption; try (intros x []).
Qed.

Definition cs_engine_cl := SM_o_Engine_o_cs_engine_R expr unit cl NumExpr NumUnit Num_cl.
Definition np_engine_cl := SM_o_Engine_o_np_engine_R expr unit cl NumExpr NumUnit Num_cl.

Definition unit_state (st : state expr) : state unit :=
  {| s_rho := fun m => map (fun _ => tt) (s_rho st m); s_v := fun m => map (fun _ => tt) (s_v st m);
     s_w := fun _ => tt; s_uo := fun _ => tt; s_do := fun _ => tt;
     s_vc := fun m => map (fun _ => tt) (s_vc st m); s_dd := fun _ => tt |}.
Definition unit_params (P : params expr) : params unit :=
  {| lp := fun _ _ => tt; ocap := fun _ => tt; gT := tt; gtau := tt; geta := tt; gkappa := tt;
     gdelta := option_map (fun _ => tt) (gdelta P); gphi := option_map (fun _ => tt) (gphi P) |}.

Definition state_closed (st : state expr) : Prop :=
  (forall m e, In e (s_rho st m) -> incl (vars e) S) /\ (forall m e, In e (s_v st m) -> incl (vars e) S) /\
  (forall o, incl (vars (s_w st o)) S) /\ (forall o, incl (vars (s_uo st o)) S) /\
  (forall o, incl (vars (s_do st o)) S) /\ (forall m e, In e (s_vc st m) -> incl (vars e) S) /\
  (forall d, incl (vars (s_dd st d)) S).
Definition params_closed (P : params expr) : Prop :=
  (forall l p, incl (vars (lp P l p)) S) /\ (forall o, incl (vars (ocap P o)) S) /\
  incl (vars (gT P)) S /\ incl (vars (gtau P)) S /\ incl (vars (geta P)) S /\ incl (vars (gkappa P)) S /\
  (forall x, gdelta P = Some x -> incl (vars x) S) /\ (forall x, gphi P = Some x -> incl (vars x) S).

Lemma list_cl l : (forall e, In e l -> incl (vars e) S) -> list_R expr unit cl l (map (fun _ => tt) l).
Proof.
  induction l as [|x l IH]; intros H; simpl; constructor.
  - apply H. left. reflexivity.
  - apply IH. intros e He. apply H. right. exact He.
Qed.
Lemma list_cl_inv l u : list_R expr unit cl l u -> forall e, In e l -> incl (vars e) S.
Proof. induction 1; intros e []; subst; auto. Qed.

Lemma state_cl st : state_closed st -> SM_o_Types_o_state_R expr unit cl st (unit_state st).
Proof.
  intros (H1 & H2 & H3 & H4 & H5 & H6 & H7). destruct st. unfold unit_state. simpl in *.
  constructor; intros a b H; apply nat_R_eq in H; subst; unfold cl; auto; apply list_cl; eauto.
Qed.
Lemma params_cl P : params_closed P -> SM_o_Types_o_params_R expr unit cl P (unit_params P).
Proof.
  intros (H1 & H2 & H3 & H4 & H5 & H6 & H7 & H8). destruct P. unfold unit_params. simpl in *.
  constructor; unfold cl; auto.
  - destruct gdelta; constructor. apply H7. reflexivity.
  - destruct gphi; constructor. apply H8. reflexivity.
Qed.

(* all symbols of a result vector list *)
Definition named_closed (l : list (string * list expr)) : Prop :=
  forall n v e, In (n, v) l -> In e v -> incl (vars e) S.

Lemma step_out_closed (E : engine expr) (Eu : engine unit) U P g opts st out :
  SM_o_Engine_o_engine_R expr unit cl E Eu -> state_closed st -> params_closed P ->
  network_step E U P g opts st = Ok out ->
  (forall x e, In x (o_links out) -> In e (fst (snd x)) \/ In e (snd (snd x)) -> incl (vars e) S) /\
  (forall x w, In x (o_queues out) -> snd x = Some w -> incl (vars w) S).
Proof.
  intros HE Hst HP Hs.
  pose proof (SM_o_Blocks_o_network_step_R expr unit cl NumExpr NumUnit Num_cl E Eu HE U U
                (universe_R_refl U) P (unit_params P) (params_cl P HP) g g (graph_R_refl g) opts opts
                (options_R_refl opts) st (unit_state st) (state_cl st Hst)) as H.
  rewrite Hs in H. inversion H as [o1 o2 Ho E1 E2|]; subst. clear H.
  destruct Ho as [l1 l2 Hl q1 q2 Hq]. simpl. split.
  - clear Hq Hs E2. induction Hl as [|x1 x2 Hx t1 t2 Ht IH]; intros x e []; subst.
    + destruct Hx as [n1 n2 Hn p1 p2 Hp]. destruct Hp as [a1 a2 Ha b1 b2 Hb]. simpl.
      intros [He|He]; [exact (list_cl_inv _ _ Ha e He)|exact (list_cl_inv _ _ Hb e He)].
    + apply IH. assumption.
  - clear Hl Hs E2. induction Hq as [|x1 x2 Hx t1 t2 Ht IH]; intros x w []; subst.
    + destruct Hx as [n1 n2 Hn p1 p2 Hp]. simpl. intros E1. subst. inversion Hp; subst. assumption.
    + apply IH. assumption.
Qed.
End Closed.

(* ---- symbols of the arguments at each level ---- *)
Lemma In_concat {T} (x : T) ll : In x (List.concat ll) <-> exists l, In l ll /\ In x l.
Proof.
  induction ll as [|a ll IH]; simpl; [split; [tauto|intros (l & [] & _)]|].
  rewrite in_app_iff, IH. split.
  - intros [H|(l & H1 & H2)]; [exists a; auto|exists l; auto].
  - intros (l & [->|H1] & H2); [left; exact H2|right; exists l; auto].
Qed.

Lemma regroup_add_In {T} (x : T) k v acc :
  In x (List.concat (map snd (regroup_add k v acc))) <-> In x v \/ In x (List.concat (map snd acc)).
Proof.
  induction acc as [|[k' v'] acc IH]; simpl.
  - rewrite app_nil_r. tauto.
  - destruct (String.eqb k' k); simpl; rewrite !in_app_iff; [tauto|]. rewrite IH. tauto.
Qed.
Lemma regroup_In {T} (x : T) (l : list (string * list T)) :
  In x (List.concat (map snd (regroup l))) <-> In x (List.concat (map snd l)).
Proof.
  unfold regroup.
  assert (H : forall acc, In x (List.concat (map snd (fold_left (fun a kv => regroup_add (fst kv) (snd kv) a) l acc)))
                          <-> In x (List.concat (map snd l)) \/ In x (List.concat (map snd acc))).
  { induction l as [|[k v] l IH]; intros acc; simpl; [tauto|].
    rewrite IH, regroup_add_In, in_app_iff. simpl. tauto. }
  rewrite H. simpl. tauto.
Qed.

Definition group_idents (U : universe) (g : graph) (gr : grp) : list ident :=
  List.concat (map snd (group_entries U g gr)).
Definition net_idents (U : universe) (g : graph) : list ident :=
  group_idents U g GX ++ group_idents U g GU ++ group_idents U g GD.

Lemma concat_snd_map {T K K'} (h : K * list T -> K' * list T) (l : list (K * list T)) :
  (forall x, snd (h x) = snd x) -> List.concat (map snd (map h l)) = List.concat (map snd l).
Proof. intros H. induction l as [|a l IH]; simpl; [reflexivity|]. rewrite IH, H. reflexivity. Qed.

Lemma level0_idents nm U g x :
  In x (List.concat (map snd (inputs_level0 nm U g))) <-> In x (net_idents U g).
Proof.
  unfold inputs_level0, net_idents, group_idents. cbn [flat_map]. rewrite app_nil_r, !map_app, !concat_app, !in_app_iff.
  rewrite !concat_snd_map by reflexivity. tauto.
Qed.
Lemma level1_idents U g x :
  In x (List.concat (map snd (inputs_level1 U g))) <-> In x (net_idents U g).
Proof.
  unfold inputs_level1, net_idents, group_idents. cbn [flat_map]. rewrite app_nil_r, !map_app, !concat_app, !in_app_iff.
  rewrite !regroup_In, !concat_snd_map by reflexivity. tauto.
Qed.
Lemma level2_idents U g x :
  In x (List.concat (map snd (inputs_level2 U g))) <-> In x (net_idents U g).
Proof.
  unfold inputs_level2, net_idents, group_idents. cbn [map fst snd List.concat]. rewrite app_nil_r, !in_app_iff.
  rewrite !regroup_In, !concat_snd_map by reflexivity. tauto.
Qed.
Lemma tf_inputs_idents nm U g c ps x :
  In x (net_idents U g) -> In x (List.concat (map snd (tf_inputs nm U g c ps))).
Proof.
  intros H. unfold tf_inputs. rewrite map_app, concat_app, in_app_iff. left.
  destruct c as [|[|c]]; [apply level0_idents|apply level1_idents|apply level2_idents]; exact H.
Qed.
Lemma concat_singletons_ids (ps : list (string * ident)) :
  List.concat (map snd (map (fun p => (fst p, [snd p])) ps)) = map snd ps.
Proof. induction ps as [|p ps IH]; simpl; [reflexivity|]. rewrite IH. reflexivity. Qed.

Lemma tf_inputs_params nm U g c ps x :
  In x (map snd ps) -> In x (List.concat (map snd (tf_inputs nm U g c ps))).
Proof.
  intros H. unfold tf_inputs. rewrite map_app, concat_app, in_app_iff. right.
  destruct ps as [|p ps]; [destruct H|]. unfold param_inputs. destruct c.
  - rewrite concat_singletons_ids. exact H.
  - cbn [map snd List.concat]. rewrite app_nil_r. exact H.
Qed.

(* the network's own symbols are among the arguments *)
Lemma mem_In n l : mem n l = true -> In n l.
Proof.
  unfold mem. rewrite existsb_exists. intros (x & Hx & E). apply Nat.eqb_eq in E. subst. exact Hx.
Qed.

Lemma elem_entry_idents U g el ve x :
  In el (elements g) -> In ve (elem_vars U el) -> In x (snd ve) -> In x (net_idents U g).
Proof.
  intros Hel Hve Hx. unfold net_idents, group_idents.
  assert (H : In x (List.concat (map snd (group_entries U g (fst (fst ve)))))).
  { apply In_concat. exists (snd ve). split; [|exact Hx]. apply in_map_iff.
    exists (el, snd (fst ve), snd ve). split; [reflexivity|]. unfold group_entries. apply in_flat_map.
    exists el. split; [exact Hel|]. apply in_map_iff. exists ve. split; [reflexivity|].
    apply filter_In. split; [exact Hve|]. destruct (fst (fst ve)); reflexivity. }
  rewrite !in_app_iff. destruct (fst (fst ve)); auto.
Qed.

Lemma net_state_closed U g : state_closed (net_idents U g) (net_state U g).
Proof.
  unfold state_closed, net_state. simpl.
  assert (HL : forall m, mem m (link_ids g) = true -> In (EL m) (elements g)).
  { intros m H. unfold elements. apply in_or_app. left. apply in_map. apply mem_In. exact H. }
  assert (HO : forall o, mem o (origin_ids g) = true -> In (EO o) (elements g)).
  { intros o H. unfold elements. apply in_or_app. right. apply in_or_app. left. apply in_map. apply mem_In. exact H. }
  assert (HD : forall d, mem d (dest_ids g) = true -> In (ED d) (elements g)).
  { intros d H. unfold elements. apply in_or_app. right. apply in_or_app. right. apply in_map. apply mem_In. exact H. }
  assert (HOv : forall o gr nmv idt, mem o (origin_ids g) = true -> is_queued (okind_of U o) = true ->
            In (gr, nmv, [idt]) (origin_vars U o) -> In idt (net_idents U g)).
  { intros o gr nmv idt M Q Hin.
    eapply (elem_entry_idents U g (EO o) (gr, nmv, [idt])); [apply HO; exact M|exact Hin|left; reflexivity]. }
  repeat split.
  - intros m e. destruct (mem m (link_ids g)) eqn:M; [|intros []]. intros He.
    apply in_map_iff in He. destruct He as (i & <- & Hi). simpl. intros x [<-|[]].
    eapply (elem_entry_idents U g (EL m) (GX, "rho"%string, _)); [apply HL; exact M|simpl; left; reflexivity|].
    simpl. apply in_map_iff. exists i. auto.
  - intros m e. destruct (mem m (link_ids g)) eqn:M; [|intros []]. intros He.
    apply in_map_iff in He. destruct He as (i & <- & Hi). simpl. intros x [<-|[]].
    eapply (elem_entry_idents U g (EL m) (GX, "v"%string, _)); [apply HL; exact M|simpl; right; left; reflexivity|].
    simpl. apply in_map_iff. exists i. auto.
  - intros o. destruct (mem o (origin_ids g)) eqn:M; [|intros x []].
    destruct (is_queued (okind_of U o)) eqn:Q; [|intros x []]. simpl. intros x [<-|[]].
    destruct (okind_of U o) eqn:K; try discriminate;
      [apply (HOv o GX "w"%string)|apply (HOv o GX "w"%string)|apply (HOv o GX "w"%string)];
      try assumption; try (rewrite K; reflexivity); unfold origin_vars; rewrite K; left; reflexivity.
  - intros o. destruct (mem o (origin_ids g)) eqn:M; [|intros x []].
    destruct (is_queued (okind_of U o)) eqn:Q; [|intros x []]. simpl. intros x [<-|[]].
    destruct (okind_of U o) eqn:K; try discriminate;
      [apply (HOv o GU "v_ctrl"%string)|apply (HOv o GU "r"%string)|apply (HOv o GU "q"%string)];
      try assumption; try (rewrite K; reflexivity); unfold origin_vars; rewrite K; right; left; reflexivity.
  - intros o. destruct (mem o (origin_ids g)) eqn:M; [|intros x []].
    destruct (is_queued (okind_of U o)) eqn:Q; [|intros x []]. simpl. intros x [<-|[]].
    destruct (okind_of U o) eqn:K; try discriminate;
      [apply (HOv o GD "d"%string)|apply (HOv o GD "d"%string)|apply (HOv o GD "d"%string)];
      try assumption; try (rewrite K; reflexivity); unfold origin_vars; rewrite K; right; right; left; reflexivity.
  - intros m e. destruct (mem m (link_ids g)) eqn:M; [|intros []].
    destruct (lvsl (linkd U m)) as [vsl|] eqn:V; [|intros []]. intros He.
    apply in_map_iff in He. destruct He as (i & <- & Hi). simpl. intros x [<-|[]].
    eapply (elem_entry_idents U g (EL m) (GU, "v_ctrl"%string, _)); [apply HL; exact M| |].
    + simpl. unfold link_vars. rewrite V. right. right. left. reflexivity.
    + simpl. apply in_map_iff. exists i. auto.
  - intros d. destruct (mem d (dest_ids g)) eqn:M; [|intros x []].
    destruct (dkind_of U d) eqn:K; [intros x []|]. simpl. intros x [<-|[]].
    eapply (elem_entry_idents U g (ED d) (GD, "d"%string, [DistD d])); [apply HD; exact M| |left; reflexivity].
    simpl. unfold dest_vars. rewrite K. left. reflexivity.
Qed.

(* ---- every symbol of every result is an argument ---- *)
Lemma regroup_In_val {T} (e : T) v (l : list (string * list T)) k :
  In (k, v) (regroup l) -> In e v -> exists k' v', In (k', v') l /\ In e v'.
Proof.
  intros H He.
  assert (Hc : In e (List.concat (map snd l))).
  { apply regroup_In. apply In_concat. exists v. split; [|exact He]. apply in_map_iff. exists (k, v). auto. }
  apply In_concat in Hc. destruct Hc as (v' & Hv' & He'). apply in_map_iff in Hv'.
  destruct Hv' as ([k' v''] & E & Hin). simpl in E. subst. eauto.
Qed.

Lemma next_entries_closed S (out : step_out (A:=expr)) :
  (forall x e, In x (o_links out) -> In e (fst (snd x)) \/ In e (snd (snd x)) -> incl (vars e) S) ->
  (forall x w, In x (o_queues out) -> snd x = Some w -> incl (vars w) S) ->
  forall el k v e, In (el, k, v) (next_entries out) -> In e v -> incl (vars e) S.
Proof.
  intros HL HQ el k v e Hin He. unfold next_entries in Hin. apply in_app_or in Hin. destruct Hin as [Hin|Hin].
  - apply in_flat_map in Hin. destruct Hin as (x & Hx & [E|[E|[]]]); inversion E; subst;
      apply (HL x e Hx); auto.
  - apply in_flat_map in Hin. destruct Hin as (x & Hx & Hin). destruct (snd x) as [w|] eqn:W; [|destruct Hin].
    destruct Hin as [E|[]]. inversion E; subst. destruct He as [<-|[]]. apply (HQ x w Hx W).
Qed.

Lemma state_outputs_closed S nm c (out : step_out (A:=expr)) :
  (forall el k v e, In (el, k, v) (next_entries out) -> In e v -> incl (vars e) S) ->
  named_closed S (state_outputs nm c out).
Proof.
  intros H n v e Hin He.
  assert (H1 : forall n v e, In (n, v) (outputs_level1 out) -> In e v -> incl (vars e) S).
  { intros n1 v1 e1 Hin1 He1. unfold outputs_level1 in Hin1.
    destruct (regroup_In_val e1 v1 _ n1 Hin1 He1) as (k' & v' & Hk & Hev).
    apply in_map_iff in Hk. destruct Hk as ([[el k] vv] & E & Hne). simpl in E. inversion E; subst.
    eapply H; eauto. }
  destruct c as [|[|c]]; simpl in Hin.
  - unfold outputs_level0 in Hin. apply in_map_iff in Hin. destruct Hin as ([[el k] vv] & E & Hne).
    simpl in E. inversion E; subst. eapply H; eauto.
  - eapply H1; eauto.
  - unfold outputs_level2 in Hin. destruct Hin as [E|[]]. inversion E; subst.
    apply In_concat in He. destruct He as (v1 & Hv1 & He1). apply in_map_iff in Hv1.
    destruct Hv1 as ([n1 v1'] & E1 & Hin1). simpl in E1. subst. eapply H1; eauto.
Qed.

Theorem tf_outputs_closed nm U (P : params expr) g opts c more ps outs :
  let S := List.concat (map snd (tf_inputs nm U g c ps)) in
  params_closed S P ->
  tf_outputs cs_engine nm U P g opts c more = Ok outs ->
  named_closed S outs.
Proof.
  intros S HP Ht. unfold tf_outputs, st0 in Ht.
  assert (HS : state_closed S (net_state U g)).
  { pose proof (net_state_closed U g) as (H1 & H2 & H3 & H4 & H5 & H6 & H7).
    assert (Hi : incl (net_idents U g) S) by (intros x Hx; apply tf_inputs_idents; exact Hx).
    repeat split; intros; eapply incl_tran; eauto. }
  destruct (network_step cs_engine U P g opts (net_state U g)) as [out|] eqn:Hs; [|discriminate].
  cbn [bind] in Ht.
  destruct (step_out_closed S cs_engine cs_engine U P g opts _ out (cs_engine_cl S) HS HP Hs) as [HL HQ].
  pose proof (state_outputs_closed S nm c out (next_entries_closed S out HL HQ)) as Hx.
  destruct more; [|inversion Ht; subst; exact Hx].
  (* the recomputed flows *)
  unfold flow_outputs, origin_flow_entries, link_flow_entries, st1, st0 in Ht.
  set (st' := init_state cs_engine opts (net_state U g)) in *.
  assert (Hst' : SM_o_Types_o_state_R expr unit (cl S) st' (init_state cs_engine opts (unit_state (net_state U g)))).
  { apply (SM_o_Blocks_o_init_state_R expr unit (cl S) NumExpr NumUnit (Num_cl S) cs_engine cs_engine
             (cs_engine_cl S) opts opts (options_R_refl opts)). apply state_cl. exact HS. }
  assert (Hlf : forall m e, In e (link_flow cs_engine U st' m) -> incl (vars e) S).
  { intros m e He.
    pose proof (SM_o_Blocks_o_link_flow_R expr unit (cl S) NumExpr NumUnit (Num_cl S) cs_engine cs_engine
                  (cs_engine_cl S) U U (universe_R_refl U) st' _ Hst' m m (nat_R_refl m)) as H.
    eapply list_cl_inv; eauto. }
  assert (Hof : forall o q, origin_flow cs_engine U P g st' o = Ok q -> incl (vars q) S).
  { intros o q Hq.
    pose proof (SM_o_Blocks_o_origin_flow_R expr unit (cl S) NumExpr NumUnit (Num_cl S) cs_engine cs_engine
                  (cs_engine_cl S) U U (universe_R_refl U) P _ (params_cl S P HP) g g (graph_R_refl g)
                  st' _ Hst' o o (nat_R_refl o)) as H.
    rewrite Hq in H. inversion H; subst. assumption. }
  destruct (mapM _ (origin_ids g)) as [qo|] eqn:Hm; [|discriminate]. cbn [bind] in Ht.
  inversion Ht; subst; clear Ht.
  assert (Hqo : forall n v e, In (n, v) qo -> In e v -> incl (vars e) S).
  { clear - Hm Hof. revert qo Hm. induction (origin_ids g) as [|o l IH]; intros qo Hm; cbn [mapM] in Hm.
    - inversion Hm; subst. intros n v e [].
    - destruct (origin_flow cs_engine U P g st' o) as [q|] eqn:Hq; [|discriminate]. cbn [bind] in Hm.
      destruct (mapM _ l) as [r|] eqn:Hr; [|discriminate]. cbn [bind] in Hm. inversion Hm; subst.
      intros n v e [E|Hin] He.
      + inversion E; subst. destruct He as [<-|[]]. eapply Hof; eauto.
      + eapply IH; eauto. }
  assert (Hql : forall n v e, In (n, v) (map (fun m => (("q_" ++ lname nm m)%string, link_flow cs_engine U st' m)) (link_ids g)) ->
                              In e v -> incl (vars e) S).
  { intros n v e Hin He. apply in_map_iff in Hin. destruct Hin as (m & E & _). inversion E; subst.
    exact (Hlf m e He). }
  intros n v e Hin He. apply in_app_or in Hin. destruct Hin as [Hin|Hin]; [eapply Hx; eauto|].
  assert (Hcat : forall (l : list (string * list expr)) e,
             (forall n v e, In (n, v) l -> In e v -> incl (vars e) S) ->
             In e (List.concat (map snd l)) -> incl (vars e) S).
  { intros l e0 Hl Hc. apply In_concat in Hc. destruct Hc as (v0 & Hv0 & He0).
    apply in_map_iff in Hv0. destruct Hv0 as ([n0 v0'] & E0 & Hin0). simpl in E0. subst. eapply Hl; eauto. }
  destruct c as [|[|c]].
  - apply in_app_or in Hin. destruct Hin; [eapply Hql|eapply Hqo]; eauto.
  - destruct Hin as [E|[E|[]]]; inversion E; subst; [exact (Hcat _ e Hql He)|exact (Hcat _ e Hqo He)].
  - destruct Hin as [E|[]]. inversion E; subst. apply in_app_or in He.
    destruct He as [He|He]; [exact (Hcat _ e Hql He)|exact (Hcat _ e Hqo He)].
Qed.
