(* StepExample.v — a concrete non-trivial network meeting the hypotheses of C01
   (2 entering links, interior ramp, 2 leaving links, a VSL link, a 1-segment link). *)
From Coq Require Import Reals Qreals QArith List Lia Lra.
From SM Require Import Num NumR Graph Engine Expr Types Blocks Spec Validity.
From SM.specs Require Import GraphWF C01_spec.
From Coq Require Import List.
Import ListNotations.
Local Open Scope R_scope.

Definition exU : universe := {|
  linkd := fun l => nth l [ {| lN := 2; llanes := 2; lvsl := Some [1%nat] |};
                            {| lN := 1; llanes := 1; lvsl := None |};
                            {| lN := 3; llanes := 2; lvsl := None |};
                            {| lN := 1; llanes := 1; lvsl := None |} ]
                          {| lN := 0; llanes := 0; lvsl := None |};
  okind_of := fun o => nth o [OMain; OIdeal; ORamp false] OIdeal;
  dkind_of := fun d => nth d [DFree; DCong] DFree |}.
(* nodes 0,1 sources; 2 junction with ramp... a ramp node may have one leaving link only, so the
   ramp sits on node 2 feeding link 2, and the bifurcation is at node 3 *)
Definition exG : graph := {|
  g_nodes := [ {| nid := 0; n_orig := Some 0%nat; n_dest := None |};
               {| nid := 1; n_orig := Some 1%nat; n_dest := None |};
               {| nid := 2; n_orig := Some 2%nat; n_dest := None |};
               {| nid := 3; n_orig := None; n_dest := None |};
               {| nid := 4; n_orig := None; n_dest := Some 0%nat |};
               {| nid := 5; n_orig := None; n_dest := Some 1%nat |} ];
  g_edges := [ {| e_up := 0; e_down := 2; e_link := 0 |};
               {| e_up := 1; e_down := 2; e_link := 1 |};
               {| e_up := 2; e_down := 3; e_link := 2 |};
               {| e_up := 3; e_down := 4; e_link := 3 |};
               {| e_up := 3; e_down := 5; e_link := 4 |} ] |}.
Definition exU' : universe := {|
  linkd := fun l => nth l [ {| lN := 2; llanes := 2; lvsl := Some [1%nat] |};
                            {| lN := 1; llanes := 1; lvsl := None |};
                            {| lN := 3; llanes := 2; lvsl := None |};
                            {| lN := 1; llanes := 1; lvsl := None |};
                            {| lN := 2; llanes := 1; lvsl := None |} ]
                          {| lN := 0; llanes := 0; lvsl := None |};
  okind_of := okind_of exU; dkind_of := dkind_of exU |}.
Definition exP : params R := {|
  lp := fun _ p => match p with PL => 1 | Prhomax => 180 | Prhocrit => 30 | Pvfree => 100
                              | Pa => 2 | Pturn => 1 | Palpha => 0 end;
  ocap := fun _ => 2000; gT := 1; gtau := 1; geta := 1; gkappa := 40;
  gdelta := Some 1; gphi := Some 1 |}.
Definition exSt : state R := {|
  s_rho := fun m => repeat 20 (lN (linkd exU' m)); s_v := fun m => repeat 80 (lN (linkd exU' m));
  s_w := fun _ => 0; s_uo := fun _ => 1; s_do := fun _ => 1000;
  s_vc := fun _ => [50]; s_dd := fun _ => 10 |}.

Definition example_meets_hypotheses : Prop :=
  wf_graph exG /\ validb exU' exG = true /\
  (forall e, In e (g_edges exG) -> wf_link exU' exSt (e_link e)) /\
  (forall e, In e (g_edges exG) -> lp exP (e_link e) Pturn <> 0) /\
  (forall e, In e (g_edges exG) -> lp exP (e_link e) Prhocrit <> 0).

Lemma example_ok : example_meets_hypotheses.
Proof.
  unfold example_meets_hypotheses. split; [|split; [|split; [|split]]].
  - split.
    + simpl. repeat constructor; simpl; intuition lia.
    + intros e He. simpl in He. simpl.
      repeat (destruct He as [<-|He]; [simpl; split; tauto|]). destruct He.
  - vm_compute. reflexivity.
  - intros e He. simpl in He.
    repeat (destruct He as [<-|He];
            [unfold wf_link; simpl; repeat split; try lia; repeat constructor; simpl; intuition lia|]).
    destruct He.
  - intros e _. simpl. lra.
  - intros e _. simpl. lra.
Qed.
