(* ValidFacts.v — what acceptance by the validation model gives: validb -> vfacts. *)
From Coq Require Import List Arith Bool Lia.
From SM Require Import Graph Types Validity.
From SM.specs Require Import GraphWF.
Import ListNotations.

Lemma elem_eqb_eq x y : elem_eqb x y = true <-> x = y.
Proof.
  destruct x, y; simpl; try (split; [discriminate|intros H; discriminate]);
    rewrite Nat.eqb_eq; split; intros H; try congruence; inversion H; reflexivity.
Qed.

Lemma existsb_elem x l : existsb (elem_eqb x) l = true <-> In x l.
Proof.
  rewrite existsb_exists. split.
  - intros (y & Hy & E). apply elem_eqb_eq in E. subst. exact Hy.
  - intros H. exists x. split; [exact H|]. apply elem_eqb_eq. reflexivity.
Qed.

Lemma dup_msgs_nil seen l :
  dup_msgs seen l = [] -> NoDup l /\ forall y, In y l -> ~ In y seen.
Proof.
  revert seen; induction l as [|x l IH]; intros seen H; simpl in H.
  - split; [constructor|]. intros y [].
  - apply app_eq_nil in H. destruct H as [H1 H2].
    destruct (existsb (elem_eqb x) seen) eqn:Ex; [discriminate|].
    destruct (IH _ H2) as [Hnd Hdis]. split.
    + constructor; [|exact Hnd]. intros Hin. apply (Hdis x Hin). left. reflexivity.
    + intros y [->|Hy].
      * intros Hs. apply existsb_elem in Hs. congruence.
      * intros Hs. apply (Hdis y Hy). right. exact Hs.
Qed.

Lemma NoDup_app_l {T} (a b : list T) : NoDup (a ++ b) -> NoDup a.
Proof.
  induction a as [|x a IH]; intros H; [constructor|]. simpl in H.
  inversion H as [|? ? Hnin Hnd]; subst. constructor; [|apply IH; exact Hnd].
  intros Hin. apply Hnin. apply in_or_app. left. exact Hin.
Qed.
Lemma NoDup_app_r {T} (a b : list T) : NoDup (a ++ b) -> NoDup b.
Proof.
  induction a as [|x a IH]; intros H; [exact H|]. simpl in H.
  inversion H; subst. apply IH. assumption.
Qed.

Lemma NoDup_map_inj {T V} (f : T -> V) l a b :
  NoDup (map f l) -> In a l -> In b l -> f a = f b -> a = b.
Proof.
  induction l as [|x l IH]; intros Hnd Ha Hb E; [destruct Ha|].
  simpl in Hnd. inversion Hnd as [|? ? Hnin Hnd']; subst.
  destruct Ha as [->|Ha], Hb as [->|Hb]; auto.
  - exfalso. apply Hnin. rewrite E. apply in_map. exact Hb.
  - exfalso. apply Hnin. rewrite <- E. apply in_map. exact Ha.
Qed.

Lemma NoDup_flat_map_inj {T V} (f : T -> list V) l a b x :
  NoDup (flat_map f l) -> In a l -> In b l -> In x (f a) -> In x (f b) -> a = b.
Proof.
  induction l as [|y l IH]; intros Hnd Ha Hb Hxa Hxb; [destruct Ha|].
  simpl in Hnd.
  assert (Hl : NoDup (flat_map f l)) by (apply NoDup_app_r in Hnd; exact Hnd).
  assert (Hcross : forall c, In c l -> In x (f y) -> In x (f c) -> False).
  { intros c Hc H1 H2. clear IH. induction (f y) as [|z fy IHy]; [destruct H1|].
    simpl in Hnd. inversion Hnd as [|? ? Hnin Hnd']; subst.
    destruct H1 as [->|H1].
    - apply Hnin. apply in_or_app. right. apply in_flat_map. exists c. auto.
    - apply IHy; assumption. }
  destruct Ha as [->|Ha], Hb as [->|Hb]; auto.
  - exfalso. eapply Hcross; eauto.
  - exfalso. eapply Hcross; eauto.
Qed.

Lemma flat_map_nil {T V} (f : T -> list V) l x : flat_map f l = [] -> In x l -> f x = [].
Proof.
  induction l as [|y l IH]; intros H Hx; [destruct Hx|]. simpl in H.
  apply app_eq_nil in H. destruct H as [H1 H2]. destruct Hx as [->|Hx]; auto.
Qed.

(* ---- dictionaries built by folding over the nodes ---- *)
Lemma dict_get_set k v k' d :
  dict_get k' (dict_set k v d) = if Nat.eqb k k' then Some v else dict_get k' d.
Proof.
  induction d as [|[a b] d IH]; simpl.
  - destruct (Nat.eqb k k'); reflexivity.
  - destruct (Nat.eqb_spec a k) as [->|Hak]; simpl.
    + destruct (Nat.eqb k k'); reflexivity.
    + rewrite IH. destruct (Nat.eqb_spec a k') as [->|Hak'].
      * destruct (Nat.eqb_spec k k') as [->|]; [congruence|reflexivity].
      * reflexivity.
Qed.

Lemma dict_get_In k v d : dict_get k d = Some v -> In (k, v) d.
Proof.
  induction d as [|[a b] d IH]; simpl; [discriminate|].
  destruct (Nat.eqb_spec a k) as [->|]; intros H.
  - inversion H; subst. left. reflexivity.
  - right. apply IH. exact H.
Qed.

Lemma dict_set_keys k v d x : In x (map fst (dict_set k v d)) -> x = k \/ In x (map fst d).
Proof.
  induction d as [|[a b] d IH]; simpl.
  - intros [H|[]]; auto.
  - destruct (Nat.eqb_spec a k) as [->|]; simpl; intros [H|H]; auto.
    destruct (IH H); auto.
Qed.

Lemma find_app {T} (f : T -> bool) a b :
  find f (a ++ b) = match find f a with Some x => Some x | None => find f b end.
Proof. induction a as [|x a IH]; simpl; [reflexivity|]. destruct (f x); [reflexivity|exact IH]. Qed.

Section Fold.
Variable sel : node_entry -> option nat.
Definition dstep (d : list (nat * nat)) (ne : node_entry) :=
  match sel ne with Some o => dict_set o (nid ne) d | None => d end.
Definition has (o : nat) (ne : node_entry) : bool :=
  match sel ne with Some o' => Nat.eqb o' o | None => false end.

Lemma dict_get_fold o nodes d :
  dict_get o (fold_left dstep nodes d) =
  match find (has o) (rev nodes) with
  | Some ne => Some (nid ne)
  | None => dict_get o d
  end.
Proof.
  revert d; induction nodes as [|ne nodes IH]; intros d; [reflexivity|].
  simpl fold_left. rewrite IH. simpl rev.
  destruct (find (has o) (rev nodes)) as [x|] eqn:F.
  - rewrite find_app, F. reflexivity.
  - rewrite find_app, F. simpl. unfold dstep, has.
    destruct (sel ne) as [o'|]; [|reflexivity].
    rewrite dict_get_set. destruct (Nat.eqb o' o); reflexivity.
Qed.

Lemma fold_keys o nodes d :
  In o (map fst (fold_left dstep nodes d)) ->
  In o (map fst d) \/ exists ne, In ne nodes /\ sel ne = Some o.
Proof.
  revert d; induction nodes as [|ne nodes IH]; intros d H; [left; exact H|].
  simpl in H. destruct (IH _ H) as [H1|(x & Hx & Sx)].
  - unfold dstep in H1. destruct (sel ne) as [o'|] eqn:S; [|left; exact H1].
    destruct (dict_set_keys _ _ _ _ H1) as [->|H2]; [|left; exact H2].
    right. exists ne. split; [left; reflexivity|exact S].
  - right. exists x. split; [right; exact Hx|exact Sx].
Qed.
End Fold.

(* ---- the graph ---- *)
Lemma links_edges g e : In e (links g) -> In e (g_edges g).
Proof.
  unfold links. intros H. apply in_flat_map in H. destruct H as (ne & _ & H).
  unfold out_links in H. apply filter_In in H. tauto.
Qed.
Lemma edges_links g e : wf_graph g -> In e (g_edges g) -> In e (links g).
Proof.
  intros [_ Hends] He. destruct (Hends e He) as [Hu _].
  apply in_map_iff in Hu. destruct Hu as (ne & Hne & Hin).
  unfold links. apply in_flat_map. exists ne. split; [exact Hin|].
  unfold out_links. apply filter_In. split; [exact He|]. rewrite Hne. apply Nat.eqb_refl.
Qed.

Lemma find_node_In g ne :
  NoDup (map nid (g_nodes g)) -> In ne (g_nodes g) -> find_node g (nid ne) = Some ne.
Proof.
  unfold find_node. induction (g_nodes g) as [|x l IH]; intros Hnd Hin; [destruct Hin|].
  simpl in *. inversion Hnd as [|? ? Hnin Hnd']; subst.
  destruct Hin as [->|Hin]; [rewrite Nat.eqb_refl; reflexivity|].
  destruct (Nat.eqb_spec (nid x) (nid ne)) as [E|_]; [|apply IH; assumption].
  exfalso. apply Hnin. rewrite E. apply in_map. exact Hin.
Qed.
Lemma find_node_Some g n ne : find_node g n = Some ne -> In ne (g_nodes g) /\ nid ne = n.
Proof.
  unfold find_node. intros H. apply find_some in H. destruct H as [H1 H2].
  apply Nat.eqb_eq in H2. auto.
Qed.
Lemma node_of_id g n : In n (map nid (g_nodes g)) -> NoDup (map nid (g_nodes g)) ->
  exists ne, find_node g n = Some ne /\ In ne (g_nodes g) /\ nid ne = n.
Proof.
  intros Hin Hnd. apply in_map_iff in Hin. destruct Hin as (ne & E & Hne).
  exists ne. subst n. split; [apply find_node_In; assumption|]. auto.
Qed.

Section Valid.
Variable U : universe.
Variable g : graph.
Hypothesis WFG : wf_graph g.
Hypothesis V : validb U g = true.

Lemma valid_parts :
  dup_msgs [] (counted g) = [] /\ flat_map (node_msgs g) (g_nodes g) = [] /\
  flat_map (origin_msgs U g) (origins_dict g) = [] /\ flat_map (dest_msgs g) (dests_dict g) = [].
Proof.
  unfold validb, is_valid_msgs in V.
  destruct (dup_msgs [] (counted g) ++ _) eqn:E; [|discriminate].
  apply app_eq_nil in E. destruct E as [E1 E]. apply app_eq_nil in E. destruct E as [E2 E].
  apply app_eq_nil in E. destruct E as [E3 E4]. auto.
Qed.

Lemma counted_nodup : NoDup (counted g).
Proof. destruct valid_parts as (H & _). apply dup_msgs_nil in H. tauto. Qed.

Lemma link_ids_nodup : NoDup (map e_link (links g)).
Proof.
  pose proof counted_nodup as H. unfold counted in H. apply NoDup_app_l in H.
  rewrite <- (map_map e_link EL) in H. apply NoDup_map_inv in H. exact H.
Qed.

Lemma attach_nodup :
  NoDup (flat_map (fun ne => opt_list EO (n_orig ne) ++ opt_list ED (n_dest ne)) (g_nodes g)).
Proof. pose proof counted_nodup as H. unfold counted in H. apply NoDup_app_r in H. exact H. Qed.

Lemma v_link e : In e (g_edges g) -> nodes_of_link g (e_link e) = Some (e_up e, e_down e).
Proof.
  intros He. pose proof (edges_links g e WFG He) as Hl. unfold nodes_of_link.
  destruct (find (fun e0 => Nat.eqb (e_link e0) (e_link e)) (rev (links g))) as [e'|] eqn:F.
  - apply find_some in F. destruct F as [F1 F2]. apply Nat.eqb_eq in F2.
    apply in_rev in F1.
    assert (e' = e) by (eapply NoDup_map_inj; eauto using link_ids_nodup). subst. reflexivity.
  - exfalso. pose proof (find_none _ _ F e ltac:(apply in_rev; rewrite rev_involutive; exact Hl)) as H.
    simpl in H. rewrite Nat.eqb_refl in H. discriminate.
Qed.

Lemma orig_entry n o : origin_at g n = Some o ->
  exists ne, In ne (g_nodes g) /\ nid ne = n /\ n_orig ne = Some o.
Proof.
  unfold origin_at. destruct (find_node g n) as [ne|] eqn:F; [|discriminate].
  intros H. destruct (find_node_Some _ _ _ F). exists ne. auto.
Qed.
Lemma dest_entry n d : dest_at g n = Some d ->
  exists ne, In ne (g_nodes g) /\ nid ne = n /\ n_dest ne = Some d.
Proof.
  unfold dest_at. destruct (find_node g n) as [ne|] eqn:F; [|discriminate].
  intros H. destruct (find_node_Some _ _ _ F). exists ne. auto.
Qed.

Lemma v_orig_dict n o : origin_at g n = Some o -> dict_get o (origins_dict g) = Some n.
Proof.
  intros Ho. destruct (orig_entry _ _ Ho) as (ne & Hin & Hid & Hor).
  unfold origins_dict. change (fun d ne0 => match n_orig ne0 with Some o0 => dict_set o0 (nid ne0) d | None => d end)
    with (dstep n_orig). rewrite dict_get_fold.
  destruct (find (has n_orig o) (rev (g_nodes g))) as [ne'|] eqn:F.
  - apply find_some in F. destruct F as [F1 F2]. apply in_rev in F1. unfold has in F2.
    destruct (n_orig ne') as [o'|] eqn:O'; [|discriminate]. apply Nat.eqb_eq in F2. subst o'.
    assert (ne' = ne).
    { eapply (NoDup_flat_map_inj _ _ _ _ (EO o) attach_nodup); eauto.
      - rewrite O'. left. reflexivity.
      - rewrite Hor. left. reflexivity. }
    subst ne'. rewrite Hid. reflexivity.
  - exfalso. pose proof (find_none _ _ F ne ltac:(apply in_rev; rewrite rev_involutive; exact Hin)) as H.
    unfold has in H. rewrite Hor, Nat.eqb_refl in H. discriminate.
Qed.
Lemma v_dest_dict n d : dest_at g n = Some d -> dict_get d (dests_dict g) = Some n.
Proof.
  intros Ho. destruct (dest_entry _ _ Ho) as (ne & Hin & Hid & Hor).
  unfold dests_dict. change (fun d0 ne0 => match n_dest ne0 with Some o0 => dict_set o0 (nid ne0) d0 | None => d0 end)
    with (dstep n_dest). rewrite dict_get_fold.
  destruct (find (has n_dest d) (rev (g_nodes g))) as [ne'|] eqn:F.
  - apply find_some in F. destruct F as [F1 F2]. apply in_rev in F1. unfold has in F2.
    destruct (n_dest ne') as [o'|] eqn:O'; [|discriminate]. apply Nat.eqb_eq in F2. subst o'.
    assert (ne' = ne).
    { eapply (NoDup_flat_map_inj _ _ _ _ (ED d) attach_nodup); eauto.
      - rewrite O'. apply in_or_app. right. left. reflexivity.
      - rewrite Hor. apply in_or_app. right. left. reflexivity. }
    subst ne'. rewrite Hid. reflexivity.
  - exfalso. pose proof (find_none _ _ F ne ltac:(apply in_rev; rewrite rev_involutive; exact Hin)) as H.
    unfold has in H. rewrite Hor, Nat.eqb_refl in H. discriminate.
Qed.

Lemma v_orig_dict_inv o : In o (map fst (origins_dict g)) -> exists n, origin_at g n = Some o.
Proof.
  unfold origins_dict. change (fun d ne0 => match n_orig ne0 with Some o0 => dict_set o0 (nid ne0) d | None => d end)
    with (dstep n_orig). intros H. apply fold_keys in H. destruct H as [[]|(ne & Hin & Hs)].
  exists (nid ne). unfold origin_at. rewrite (find_node_In g ne (proj1 WFG) Hin). exact Hs.
Qed.

Lemma node_facts ne : In ne (g_nodes g) ->
  (n_orig ne <> None -> n_dest ne <> None -> False) /\
  (in_links g (nid ne) = [] -> n_orig ne <> None) /\
  (out_links g (nid ne) = [] -> n_dest ne <> None).
Proof.
  intros Hin. destruct valid_parts as (_ & H2 & _). pose proof (flat_map_nil _ _ _ H2 Hin) as H.
  unfold node_msgs in H. apply app_eq_nil in H. destruct H as [Ha H].
  apply app_eq_nil in H. destruct H as [Hb H]. apply app_eq_nil in H. destruct H as [Hc Hd].
  repeat split.
  - intros A B. destruct (n_orig ne), (n_dest ne); try discriminate; congruence.
  - intros E A. rewrite E, A in Hc. simpl in Hc. discriminate.
  - intros E A. rewrite E, A in Hd. simpl in Hd. discriminate.
Qed.

Lemma v_orig_out n o : origin_at g n = Some o -> exists e1, out_links g n = [e1].
Proof.
  intros Ho. destruct (orig_entry _ _ Ho) as (ne & Hin & Hid & Hor).
  destruct (node_facts ne Hin) as (Hboth & _ & Hout). rewrite Hid in *.
  pose proof (dict_get_In _ _ _ (v_orig_dict _ _ Ho)) as Hd.
  destruct valid_parts as (_ & _ & H3 & _). pose proof (flat_map_nil _ _ _ H3 Hd) as H.
  unfold origin_msgs in H. apply app_eq_nil in H. destruct H as [_ H].
  destruct (out_links g n) as [|e1 [|e2 l]] eqn:E.
  - exfalso. apply Hboth; [congruence|]. apply Hout. reflexivity.
  - exists e1. reflexivity.
  - simpl in H. discriminate.
Qed.
Lemma v_dest_in n d : dest_at g n = Some d -> exists e1, in_links g n = [e1].
Proof.
  intros Ho. destruct (dest_entry _ _ Ho) as (ne & Hin & Hid & Hor).
  destruct (node_facts ne Hin) as (Hboth & Hinl & _). rewrite Hid in *.
  pose proof (dict_get_In _ _ _ (v_dest_dict _ _ Ho)) as Hd.
  destruct valid_parts as (_ & _ & _ & H4). pose proof (flat_map_nil _ _ _ H4 Hd) as H.
  unfold dest_msgs in H. apply app_eq_nil in H. destruct H as [H _].
  destruct (in_links g n) as [|e1 [|e2 l]] eqn:E.
  - exfalso. apply Hboth; [|congruence]. apply Hinl. reflexivity.
  - exists e1. reflexivity.
  - simpl in H. discriminate.
Qed.

Lemma v_dest_out n d : dest_at g n = Some d -> out_links g n = [].
Proof.
  intros Ho. pose proof (dict_get_In _ _ _ (v_dest_dict _ _ Ho)) as Hd.
  destruct valid_parts as (_ & _ & _ & H4). pose proof (flat_map_nil _ _ _ H4 Hd) as H.
  unfold dest_msgs in H. apply app_eq_nil in H. destruct H as [_ H].
  destruct (out_links g n); [reflexivity|simpl in H; discriminate].
Qed.

Lemma v_src e : In e (g_edges g) -> origin_at g (e_up e) = None -> in_links g (e_up e) <> [].
Proof.
  intros He Ho Hin. destruct WFG as [Hnd Hends]. destruct (Hends e He) as [Hu _].
  destruct (node_of_id g _ Hu Hnd) as (ne & F & Hne & Hid).
  unfold origin_at in Ho. rewrite F in Ho.
  destruct (node_facts ne Hne) as (_ & H & _). rewrite Hid in H. apply (H Hin). exact Ho.
Qed.
Lemma v_sink e : In e (g_edges g) -> dest_at g (e_down e) = None -> out_links g (e_down e) <> [].
Proof.
  intros He Ho Hin. destruct WFG as [Hnd Hends]. destruct (Hends e He) as [_ Hu].
  destruct (node_of_id g _ Hu Hnd) as (ne & F & Hne & Hid).
  unfold dest_at in Ho. rewrite F in Ho.
  destruct (node_facts ne Hne) as (_ & _ & H). rewrite Hid in H. apply (H Hin). exact Ho.
Qed.

Theorem validb_vfacts : vfacts U g.
Proof.
  constructor.
  - exact v_link.
  - apply links_edges.
  - exact v_orig_dict.
  - exact v_orig_dict_inv.
  - exact v_dest_dict.
  - exact v_orig_out.
  - exact v_dest_in.
  - exact v_dest_out.
  - exact v_src.
  - exact v_sink.
Qed.
End Valid.
