(* Clamps.v — proofs for C11, polymorphic in the numeric structure. *)
From Coq Require Import List Bool Arith FunctionalExtensionality.
From SM Require Import Num Graph Engine Expr Types Blocks.
From SM.gen Require Import EnginesNp EnginesCs.
From SM.specs Require Import C11_spec.
From Coq Require Import List.
Import ListNotations.

Section Clamps.
Context {A : Type} {NA : Num A}.

Lemma np_max_is_nmax : max_is_nmax (@np_engine A NA).
Proof. split; intros; reflexivity. Qed.
Lemma cs_max_is_nmax : max_is_nmax (@cs_engine A NA).
Proof. split; intros; reflexivity. Qed.

Variable E : engine A.
Hypothesis HM : max_is_nmax E.

Lemma init_state_clamp o st : init_state E o st = clamp_state o st.
Proof.
  destruct HM as [H1 H2]. unfold init_state, clamp_state, clamp, clamp0.
  f_equal; apply functional_extensionality; intro k; rewrite ?H1, ?H2; reflexivity.
Qed.

Lemma clamp_state_idem_no_init o st : init_state E (no_init o) st = st.
Proof. destruct st. reflexivity. Qed.

Theorem init_clamps : init_options_are_clamps E.
Proof.
  intros U P g o st. unfold network_step.
  rewrite clamp_state_idem_no_init, init_state_clamp. reflexivity.
Qed.

Lemma mapM_post {T V W} (f : T -> res V) (f' : T -> res W) (h : V -> W) l :
  (forall x, f' x = bind (f x) (fun y => Ok (h y))) ->
  mapM f' l = bind (mapM f l) (fun ys => Ok (map h ys)).
Proof.
  intros H. induction l as [|x l IH]; [reflexivity|]. cbn [mapM]. rewrite H.
  destruct (f x) as [y|e]; [|reflexivity]. cbn [bind]. rewrite IH.
  destruct (mapM f l); reflexivity.
Qed.

Lemma clamp_length (x : list A) : List.length (clamp x) = List.length x.
Proof. apply map_length. Qed.

Theorem next_clamps : next_options_are_clamps E.
Proof.
  destruct HM as [H1 H2]. intros U P g o st. unfold network_step.
  change (init_state E (no_next o) st) with (init_state E o st).
  set (st' := init_state E o st).
  rewrite (mapM_post
             (fun k => bind (origin_step E U P g st' (no_next o) k) (fun r => Ok (k, r)))
             (fun k => bind (origin_step E U P g st' o k) (fun r => Ok (k, r)))
             (fun x => (fst x, option_map (fun w => if pn_w o then clamp0 w else w) (snd x)))).
  2:{ intros k. unfold origin_step. destruct (is_queued (okind_of U k)); [|reflexivity].
      destruct (origin_flow E U P g st' k); [|reflexivity]. cbn [bind pn_w no_next fst snd option_map].
      rewrite H2. destruct (pn_w o); reflexivity. }
  rewrite (mapM_post
             (fun e => bind (link_step E U P g st' (no_next o) (e_link e)) (fun r => Ok (e_link e, r)))
             (fun e => bind (link_step E U P g st' o (e_link e)) (fun r => Ok (e_link e, r)))
             (fun x => (fst x, (if pn_rho o then clamp (fst (snd x)) else fst (snd x),
                                if pn_v o then clamp (snd (snd x)) else snd (snd x))))).
  2:{ intros e. unfold link_step. destruct (link_raw E U P g st' (e_link e)) as [[r v]|]; [|reflexivity].
      cbn [bind fst snd pn_rho pn_v no_next]. rewrite !H1.
      fold (clamp r). fold (clamp v).
      assert (Lr : List.length (if pn_rho o then clamp r else r) = List.length r)
        by (destruct (pn_rho o); [apply clamp_length|reflexivity]).
      assert (Lv : List.length (if pn_v o then clamp v else v) = List.length v)
        by (destruct (pn_v o); [apply clamp_length|reflexivity]).
      change (map (nmax zero) r) with (clamp r). change (map (nmax zero) v) with (clamp v).
      rewrite Lr, Lv.
      destruct ((List.length r =? List.length (s_rho st' (e_link e))) &&
                (List.length v =? List.length (s_v st' (e_link e))))%nat; reflexivity. }
  destruct (mapM _ (map fst (origins_dict g))) as [ws|]; [|reflexivity]. cbn [bind].
  destruct (mapM _ (links g)) as [ls|]; reflexivity.
Qed.

Theorem all_off_raw : all_off_is_raw E.
Proof.
  intros U P g st m. unfold link_step. destruct (link_raw E U P g st m) as [[r v]|]; reflexivity.
Qed.
End Clamps.
