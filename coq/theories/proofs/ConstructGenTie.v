(* ConstructGenTie.v — Construct.apply_op = the regenerated construction calls (gen/ConstructGen.v). *)
From Coq Require Import List Arith Bool.
From SM Require Import Graph Construct NxSupport.
From SM.gen Require Import ConstructGen.
From SM.specs Require Import ConstructGen_spec.
Import ListNotations.

Lemma upd_node_same x l : upd_node (fun c => c) x l = l.
Proof.
  unfold upd_node. induction l as [|c l IH]; cbn; [reflexivity|].
  rewrite IH. destruct (obj_eqb (c_obj c) x); reflexivity.
Qed.

Lemma cgraph_eta g : {| c_nodes := c_nodes g; c_edges := c_edges g |} = g.
Proof. destruct g; reflexivity. Qed.

Lemma nx_add_node_plain g x : nx_add_node g x [] = add_node g x.
Proof.
  unfold nx_add_node, add_node. destruct (has_node g x); cbn [fold_left]; [|reflexivity].
  rewrite upd_node_same. apply cgraph_eta.
Qed.

Lemma nx_add_edge_is_add_link g u v l : nx_add_edge g u v l = add_link g u l v.
Proof. unfold nx_add_edge, add_link. rewrite !nx_add_node_plain. reflexivity. Qed.

Lemma fold_left_ext {A B} (f h : A -> B -> A) : (forall a b, f a b = h a b) -> forall l a, fold_left f l a = fold_left h l a.
Proof. intros E l; induction l as [|b l IH]; intros a; cbn; [reflexivity|]. rewrite E; apply IH. Qed.
Lemma fold_left_map {A B C} (f : A -> C -> A) (h : B -> C) l a :
  fold_left f (map h l) a = fold_left (fun a b => f a (h b)) l a.
Proof. revert a; induction l as [|b l IH]; intros a; cbn; [reflexivity|apply IH]. Qed.

Lemma gen_add_node_eq g x : gen_add_node g x = add_node g x.
Proof. unfold gen_add_node, gen_add_node_full; cbn. apply nx_add_node_plain. Qed.
Lemma gen_add_link_eq g u l d : gen_add_link g u l d = add_link g u l d.
Proof. unfold gen_add_link, gen_add_link_full; cbn. apply nx_add_edge_is_add_link. Qed.
Lemma gen_add_origin_eq g o x : gen_add_origin g o x = add_origin g o x.
Proof.
  unfold gen_add_origin, gen_add_origin_full, add_origin, nx_add_node, nx_set_node_attr.
  destruct (has_node g x); reflexivity.
Qed.
Lemma gen_add_destination_eq g d x : gen_add_destination g d x = add_destination g d x.
Proof.
  unfold gen_add_destination, gen_add_destination_full, add_destination, nx_add_node, nx_set_node_attr.
  destruct (has_node g x); reflexivity.
Qed.

(* ---- add_path ---- *)
Definition isnil {T} (l : list T) : bool := match l with [] => true | _ => false end.
Definition okcur (cur : list obj) : bool := match cur with [_] | [_; _] => true | _ => false end.
Definition st_t := (cgraph * list obj * bool * option obj * option cerr)%type.
Definition st_g (st : st_t) : cgraph := let '(g, _, _, _, _) := st in g.
Definition st_lto (st : st_t) : bool := let '(_, _, l, _, _) := st in l.
Definition st_pl (st : st_t) : option obj := let '(_, _, _, p, _) := st in p.
Definition st_err (st : st_t) : option cerr := let '(_, _, _, _, e) := st in e.

Lemma loop_stuck rest : forall g c l p e,
  fold_left gen_add_path_body rest (g, c, l, p, Some e) = (g, c, l, p, Some e).
Proof. induction rest as [|x rest IH]; intros; cbn [fold_left]; [reflexivity|]. cbn. apply IH. Qed.

Lemma body_one a p g lto pl :
  gen_add_path_body (g, [a], lto, pl, None) p =
  if is_link p then (g, [a; p], true, Some p, None) else (g, [a; p], true, Some p, Some CTypeErr).
Proof. unfold gen_add_path_body. cbn. destruct (is_link p); reflexivity. Qed.
Lemma body_two a l p g lto pl :
  gen_add_path_body (g, [a; l], lto, pl, None) p =
  if is_node p then (add_link (add_node g p) a l p, [p], true, Some p, None)
  else (g, [a; l; p], true, Some p, Some CTypeErr).
Proof.
  unfold gen_add_path_body. cbn -[gen_add_node gen_add_link]. destruct (is_node p); cbn -[gen_add_node gen_add_link]; [|reflexivity].
  rewrite gen_add_node_eq, gen_add_link_eq. reflexivity.
Qed.

Lemma loop_spec rest : forall cur g lto pl, okcur cur = true ->
  let r := path_loop cur rest pl in
  let st := fold_left gen_add_path_body rest (g, cur, lto, pl, None) in
  st_g st = fold_left apply_prim (fst (fst r)) g /\ st_err st = snd (fst r) /\ st_pl st = snd r
  /\ (st_err st = None -> st_lto st = (negb (isnil rest) || lto)).
Proof.
  induction rest as [|p rest IH]; intros cur g lto pl Hc.
  - cbn. (split; [|split; [|split]]); reflexivity.
  - destruct cur as [|a [|l [|z cur]]]; try discriminate Hc.
    + (* cur = [a] *)
      cbn [fold_left path_loop]. rewrite body_one.
      destruct (is_link p) eqn:Hl.
      * specialize (IH [a; p] g true (Some p) eq_refl). cbv zeta in IH.
        destruct IH as (H1 & H2 & H3 & H4). (split; [|split; [|split]]); try assumption.
        intros He. rewrite (H4 He). cbn. rewrite orb_true_r. reflexivity.
      * rewrite loop_stuck. cbn. (split; [|split; [|split]]); try reflexivity; try discriminate.
    + (* cur = [a; l] *)
      cbn [fold_left path_loop]. rewrite body_two.
      destruct (is_node p) eqn:Hn.
      * specialize (IH [p] (add_link (add_node g p) a l p) true (Some p) eq_refl). cbv zeta in IH.
        destruct (path_loop [p] rest (Some p)) as [[ps e] lst] eqn:E.
        destruct IH as (H1 & H2 & H3 & H4). cbn [fst snd] in *.
        (split; [|split; [|split]]); try assumption.
        intros He. rewrite (H4 He). cbn. rewrite orb_true_r. reflexivity.
      * rewrite loop_stuck. cbn. (split; [|split; [|split]]); try reflexivity; try discriminate.
Qed.

Lemma path_loop_last rest : forall cur x ps e lst,
  path_loop cur rest (Some x) = (ps, e, lst) -> lst <> None.
Proof.
  induction rest as [|p rest IH]; intros cur x ps e lst H.
  - cbn in H. inversion H; discriminate.
  - destruct cur as [|a [|l [|z cur]]]; cbn in H; try (inversion H; discriminate).
    + destruct (is_link p); [eapply IH; exact H|inversion H; discriminate].
    + destruct (is_node p); [|inversion H; discriminate].
      destruct (path_loop [p] rest (Some p)) as [[ps' e'] lst'] eqn:E. inversion H; subst.
      eapply IH; exact E.
Qed.

Lemma path_loop_first_last a rest ps lst :
  path_loop [a] rest None = (ps, None, lst) -> (lst = None <-> rest = []).
Proof.
  destruct rest as [|p rest]; cbn; intros H.
  - inversion H; split; reflexivity.
  - destruct (is_link p); [|discriminate H]. apply path_loop_last in H. split; [contradiction|discriminate].
Qed.

Lemma add_path_tail g0 first rest d :
  (let '(g, current_link, longer_than_one, point_last, err) :=
     fold_left gen_add_path_body rest (g0, [first], false, None, None) in
   match err with
   | Some e => (g, Some e)
   | None =>
     if negb longer_than_one then (g, Some CValueErr)
     else match point_last with
          | Some last_node =>
            if negb (is_node last_node) then (g, Some CTypeErr)
            else match d with
                 | Some d' => let g := gen_add_destination g d' last_node in (g, None)
                 | None => (g, None)
                 end
          | None => (g, Some CUnbound)
          end
   end)
  = match path_loop [first] rest None with
    | (ps, Some e, _) => (fold_left apply_prim ps g0, Some e)
    | (ps, None, None) => (fold_left apply_prim ps g0, Some CValueErr)
    | (ps, None, Some lastp) =>
      if negb (is_node lastp) then (fold_left apply_prim ps g0, Some CTypeErr)
      else (fold_left apply_prim (ps ++ match d with Some d => [PAddDestination d lastp] | None => [] end) g0, None)
    end.
Proof.
  pose proof (loop_spec rest [first] g0 false None eq_refl) as H. cbv zeta in H.
  destruct (fold_left gen_add_path_body rest (g0, [first], false, None, None)) as [[[[g' c'] l'] p'] e'].
  destruct (path_loop [first] rest None) as [[ps e] lst] eqn:E.
  cbn [st_g st_err st_pl st_lto fst snd] in H. destruct H as (H1 & H2 & H3 & H4). subst g' e' p'.
  destruct e as [e|]; [reflexivity|].
  specialize (H4 eq_refl). rewrite orb_false_r in H4. subst l'.
  pose proof (path_loop_first_last _ _ _ _ E) as Hl.
  destruct rest as [|p rest]; cbn [isnil negb].
  - destruct lst; [destruct Hl as [_ Hl]; discriminate (Hl eq_refl)|reflexivity].
  - destruct lst as [lastp|]; [|destruct Hl as [Hl _]; discriminate (Hl eq_refl)].
    destruct (is_node lastp); cbn [negb]; [|reflexivity].
    destruct d as [d'|]; [|rewrite app_nil_r; reflexivity].
    rewrite fold_left_app. cbn. rewrite gen_add_destination_eq. reflexivity.
Qed.

Lemma gen_add_path_eq g p o d : gen_add_path_full g p o d = add_path g p o d.
Proof.
  unfold gen_add_path_full, add_path, expand_path.
  destruct p as [|first rest]; [reflexivity|].
  destruct (is_node first); cbn [negb]; [|reflexivity].
  destruct o as [o'|]; cbv zeta; rewrite add_path_tail;
    destruct (path_loop [first] rest None) as [[ps e] lst];
    rewrite ?gen_add_node_eq, ?gen_add_origin_eq;
    destruct e as [e|]; [reflexivity| |reflexivity|];
    (destruct lst as [lastp|]; [destruct (is_node lastp); cbn [negb]|]; cbn; reflexivity).
Qed.

Theorem construction_model_is_the_regenerated_code_proof : construction_model_is_the_regenerated_code.
Proof.
  intros g op. destruct op as [x|xs|u l d|ls|o x|d x|p o d]; cbn [apply_op gen_apply_op].
  - unfold gen_add_node_full; cbn. rewrite nx_add_node_plain; reflexivity.
  - unfold gen_add_nodes_full, nx_add_nodes_from; cbn. f_equal.
    apply fold_left_ext. intros; symmetry; apply nx_add_node_plain.
  - unfold gen_add_link_full; cbn. rewrite nx_add_edge_is_add_link; reflexivity.
  - unfold gen_add_links_full, nx_add_edges_from; cbn. f_equal. rewrite fold_left_map.
    apply fold_left_ext. intros a [[u l] d]. cbn. symmetry; apply nx_add_edge_is_add_link.
  - rewrite <- gen_add_origin_eq. unfold gen_add_origin, gen_add_origin_full. destruct (negb (has_node g x)); reflexivity.
  - rewrite <- gen_add_destination_eq. unfold gen_add_destination, gen_add_destination_full. destruct (negb (has_node g x)); reflexivity.
  - symmetry; apply gen_add_path_eq.
Qed.

Theorem regenerated_add_path_never_reads_an_unbound_variable_proof : regenerated_add_path_never_reads_an_unbound_variable.
Proof.
  intros g p o d. rewrite gen_add_path_eq. unfold add_path, expand_path.
  destruct p as [|first rest]; [discriminate|].
  destruct (is_node first); cbn [negb]; [|discriminate].
  destruct (path_loop [first] rest None) as [[ps e] lst] eqn:E.
  assert (He : e <> Some CUnbound).
  { clear -E. revert E. generalize (@None obj). generalize [first]. revert ps e lst.
    induction rest as [|p rest IH]; intros ps e lst cur pl E.
    - cbn in E; inversion E; discriminate.
    - destruct cur as [|a [|l [|z cur]]]; cbn in E; try (inversion E; discriminate).
      + destruct (is_link p); [eapply IH; exact E|inversion E; discriminate].
      + destruct (is_node p); [|inversion E; discriminate].
        destruct (path_loop [p] rest (Some p)) as [[ps' e'] lst'] eqn:E'. inversion E; subst. eapply IH; exact E'. }
  destruct e as [e|]; cbn; [intros H; apply He; exact H|].
  destruct lst as [lastp|]; [destruct (is_node lastp)|]; cbn; discriminate.
Qed.
