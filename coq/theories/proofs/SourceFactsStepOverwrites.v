From Coq Require Import List ZArith Bool Lia ZifyBool.
From SM.gen Require Import Tables.
From SM.specs Require Import SourceFacts_spec.

Theorem step_overwrites_in_source_proof : step_overwrites_in_source.
Proof. vm_compute. reflexivity. Qed.
