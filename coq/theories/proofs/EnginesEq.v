(* EnginesEq.v — the two *generated* engine modules define the same functions.
   Proved for every numeric structure (hence at R, at the partial reals and on
   expression trees).  Any edit of one engine file changes the statement proved. *)
From Coq Require Import List String.
From SM Require Import Num Engine.
From SM.gen Require Import EnginesNp EnginesCs.
From SM.specs Require Import C15_spec.
Import ListNotations.

Ltac eqtac :=
  intros;
  repeat match goal with x : option _ |- _ => destruct x end;
  try match goal with x : list nat |- _ => destruct x end;
  timeout 20 reflexivity.

Section Poly.
Context {A : Type} {NA : Num A}.

Lemma eq_nodes_get_upstream_flow q b bs qo :
  Np.nodes_get_upstream_flow q b bs qo = Cs.nodes_get_upstream_flow q b bs qo.
Proof. eqtac. Qed.
Lemma eq_nodes_get_upstream_speed q v :
  Np.nodes_get_upstream_speed q v = Cs.nodes_get_upstream_speed q v.
Proof. eqtac. Qed.
Lemma eq_nodes_get_downstream_density r :
  Np.nodes_get_downstream_density r = Cs.nodes_get_downstream_density r.
Proof. eqtac. Qed.
Lemma eq_dest_free r rc :
  Np.destinations_get_congestion_free_downstream_density r rc =
  Cs.destinations_get_congestion_free_downstream_density r rc.
Proof. eqtac. Qed.
Lemma eq_dest_cong r d rc :
  Np.destinations_get_congested_downstream_density r d rc =
  Cs.destinations_get_congested_downstream_density r d rc.
Proof. eqtac. Qed.
Lemma eq_links_get_flow r v l : Np.links_get_flow r v l = Cs.links_get_flow r v l.
Proof. eqtac. Qed.
Lemma eq_links_step_density r q qu l L T :
  Np.links_step_density r q qu l L T = Cs.links_step_density r q qu l L T.
Proof. eqtac. Qed.
Lemma eq_links_step_speed v vu r rd V l L tau eta kappa T qr de ld ph rc :
  Np.links_step_speed v vu r rd V l L tau eta kappa T qr de ld ph rc =
  Cs.links_step_speed v vu r rd V l L tau eta kappa T qr de ld ph rc.
Proof. eqtac. Qed.
Lemma eq_links_Veq r vf rc a : Np.links_Veq r vf rc a = Cs.links_Veq r vf rc a.
Proof. eqtac. Qed.
Lemma eq_links_Veq_s r vf rc a : Np.links_Veq_s r vf rc a = Cs.links_Veq_s r vf rc a.
Proof. eqtac. Qed.
Lemma eq_links_controlled_Veq r vc vsl al vf rc a :
  Np.links_controlled_Veq r vc vsl al vf rc a = Cs.links_controlled_Veq r vc vsl al vf rc a.
Proof. eqtac. Qed.
Lemma eq_origins_step_queue w d q T : Np.origins_step_queue w d q T = Cs.origins_step_queue w d q T.
Proof. eqtac. Qed.
Lemma eq_origins_get_mainstream_flow d w vc v1 rc a vf l T :
  Np.origins_get_mainstream_flow d w vc v1 rc a vf l T =
  Cs.origins_get_mainstream_flow d w vc v1 rc a vf l T.
Proof. eqtac. Qed.
Lemma eq_origins_get_ramp_flow d w C r rm r1 rc T ty :
  Np.origins_get_ramp_flow d w C r rm r1 rc T ty = Cs.origins_get_ramp_flow d w C r rm r1 rc T ty.
Proof. eqtac. Qed.
Lemma eq_origins_get_simplifiedramp_flow qd d w C rm r1 rc T ty :
  Np.origins_get_simplifiedramp_flow qd d w C rm r1 rc T ty =
  Cs.origins_get_simplifiedramp_flow qd d w C rm r1 rc T ty.
Proof. eqtac. Qed.
Lemma eq_engine_vcat (xs : list (list A)) : Np.engine_vcat xs = Cs.engine_vcat xs.
Proof. eqtac. Qed.
Lemma eq_engine_max a b : Np.engine_max a b = Cs.engine_max a b.
Proof. eqtac. Qed.
Lemma eq_engine_max_s (a b : A) : Np.engine_max_s a b = Cs.engine_max_s a b.
Proof. eqtac. Qed.

Theorem engines_agree_all : engines_agree.
Proof.
  unfold engines_agree. repeat match goal with |- _ /\ _ => split end; intros.
  - apply eq_nodes_get_upstream_flow.
  - apply eq_nodes_get_upstream_speed.
  - apply eq_nodes_get_downstream_density.
  - apply eq_dest_free.
  - apply eq_dest_cong.
  - apply eq_links_get_flow.
  - apply eq_links_step_density.
  - apply eq_links_step_speed.
  - apply eq_links_Veq.
  - apply eq_links_Veq_s.
  - apply eq_links_controlled_Veq.
  - apply eq_origins_step_queue.
  - apply eq_origins_get_mainstream_flow.
  - apply eq_origins_get_ramp_flow.
  - apply eq_origins_get_simplifiedramp_flow.
  - apply eq_engine_vcat.
  - apply eq_engine_max.
  - apply eq_engine_max_s.
Qed.

End Poly.
