(* SpecPerm.v — the METANET specification (Spec.v) does not depend on the order in which
   nodes and edges were inserted, nor on a common positive scaling of the turn rates of the
   links leaving a node (C14). *)
From Coq Require Import Reals Qreals List Lia Lra Bool Arith Permutation.
From SM Require Import Num NumR Graph Expr Types Spec.
From SM.specs Require Import GraphWF.
From SM.proofs Require Import VecR.
From Coq Require Import List.
Import ListNotations.
Local Open Scope R_scope.

Lemma filter_perm {T} (f : T -> bool) l l' : Permutation l l' -> Permutation (filter f l) (filter f l').
Proof.
  induction 1 as [|x l l' H IH|x y l|l l' l'' H1 IH1 H2 IH2]; simpl.
  - constructor.
  - destruct (f x); [constructor|]; exact IH.
  - destruct (f x), (f y); try apply Permutation_refl. apply perm_swap.
  - eapply Permutation_trans; eauto.
Qed.

Lemma ssum_perm {T} (f : T -> R) l l' : Permutation l l' -> ssum f l = ssum f l'.
Proof.
  unfold ssum. induction 1 as [|x l l' H IH|x y l|l l' l'' H1 IH1 H2 IH2]; cbn [fold_right].
  - reflexivity.
  - rewrite IH. reflexivity.
  - change (@add R NumR) with Rplus. ring.
  - congruence.
Qed.

Lemma match3_perm {T V} (l l' : list T) (a : V) (b : T -> V) (c : list T -> V) :
  Permutation l l' -> (forall x y, Permutation x y -> c x = c y) ->
  match l with [] => a | [e] => b e | x :: y :: r => c (x :: y :: r) end =
  match l' with [] => a | [e] => b e | x :: y :: r => c (x :: y :: r) end.
Proof.
  intros HP Hc. pose proof (Permutation_length HP) as HL.
  destruct l as [|x [|y l]].
  - apply Permutation_nil in HP. subst. reflexivity.
  - apply Permutation_length_1_inv in HP. subst. reflexivity.
  - destruct l' as [|x' [|y' l']]; simpl in HL; try lia. apply Hc. exact HP.
Qed.

Lemma find_node_perm g g' n :
  NoDup (map nid (g_nodes g)) -> Permutation (g_nodes g) (g_nodes g') ->
  find_node g n = find_node g' n.
Proof.
  unfold find_node. intros Hnd HP.
  assert (Hnd' : NoDup (map nid (g_nodes g'))).
  { eapply Permutation_NoDup; [|exact Hnd]. apply Permutation_map. exact HP. }
  assert (char : forall l, NoDup (map nid l) -> forall x,
            find (fun ne => Nat.eqb (nid ne) n) l = Some x <-> (In x l /\ nid x = n)).
  { intros l. induction l as [|y l IH]; intros Hl x; simpl.
    - split; [discriminate|tauto].
    - inversion Hl as [|? ? Hnin Hl']; subst.
      destruct (Nat.eqb_spec (nid y) n) as [E|NE].
      + split.
        * intros H. inversion H; subst. auto.
        * intros [[->|Hin] Hx]; [reflexivity|]. exfalso. apply Hnin. rewrite E, <- Hx.
          apply in_map. exact Hin.
      + rewrite (IH Hl'). split.
        * intros [H1 H2]. auto.
        * intros [[->|Hin] Hx]; [congruence|auto]. }
  destruct (find _ (g_nodes g)) as [x|] eqn:F.
  - apply (char _ Hnd) in F. destruct F as [Hin Hx]. symmetry. apply (char _ Hnd').
    split; [|exact Hx]. eapply Permutation_in; eauto.
  - destruct (find _ (g_nodes g')) as [x'|] eqn:F'; [|reflexivity].
    apply (char _ Hnd') in F'. destruct F' as [Hin Hx].
    assert (find (fun ne => Nat.eqb (nid ne) n) (g_nodes g) = Some x') as F2.
    { apply (char _ Hnd). split; [|exact Hx]. eapply Permutation_in; [apply Permutation_sym|]; eauto. }
    congruence.
Qed.

Section Perm.
Variable U : universe.
Variable P : params R.
Variables g g' : graph.
Variable st : state R.
Hypothesis WFG : wf_graph g.
Hypothesis PN : Permutation (g_nodes g) (g_nodes g').
Hypothesis PE : Permutation (g_edges g) (g_edges g').

Lemma out_perm n : Permutation (out_links g n) (out_links g' n).
Proof. apply filter_perm. exact PE. Qed.
Lemma in_perm n : Permutation (in_links g n) (in_links g' n).
Proof. apply filter_perm. exact PE. Qed.
Lemma origin_at_perm n : origin_at g n = origin_at g' n.
Proof. unfold origin_at. rewrite (find_node_perm g g' n (proj1 WFG) PN). reflexivity. Qed.
Lemma dest_at_perm n : dest_at g n = dest_at g' n.
Proof. unfold dest_at. rewrite (find_node_perm g g' n (proj1 WFG) PN). reflexivity. Qed.

(* an origin node of a valid graph has exactly one leaving link: the same in both graphs *)
Hypothesis ORIG1 : forall n o, origin_at g n = Some o -> exists e1, out_links g n = [e1].

Lemma snode_origin_flow_perm n : snode_origin_flow U P g st n = snode_origin_flow U P g' st n.
Proof.
  unfold snode_origin_flow. rewrite <- origin_at_perm.
  destruct (origin_at g n) as [o|] eqn:Ho; [|reflexivity].
  destruct (ORIG1 _ _ Ho) as [e1 H1]. pose proof (out_perm n) as HP. rewrite H1 in *.
  apply Permutation_length_1_inv in HP. rewrite HP. reflexivity.
Qed.

Lemma sinflow_perm e : sinflow U P g st e = sinflow U P g' st e.
Proof.
  unfold sinflow, snode_Q. rewrite (ssum_perm _ _ _ (out_perm (e_up e))).
  rewrite (ssum_perm _ _ _ (in_perm (e_up e))), snode_origin_flow_perm. reflexivity.
Qed.

Lemma supspeed_perm e : supspeed U g st e = supspeed U g' st e.
Proof.
  unfold supspeed.
  apply (match3_perm _ _ _ _ (fun es => div (ssum (fun x => mul (slast_v U st x) (slast_q U st x)) es)
                                            (ssum (slast_q U st) es))); [apply in_perm|].
  intros x y HP. rewrite (ssum_perm _ _ _ HP). rewrite (ssum_perm (slast_q U st) _ _ HP). reflexivity.
Qed.

Lemma sdowndens_perm e : sdowndens U P g st e = sdowndens U P g' st e.
Proof.
  unfold sdowndens. rewrite <- dest_at_perm. destruct (dest_at g (e_down e)); [reflexivity|].
  apply (match3_perm _ _ _ _ (fun es => div (ssum (fun x => sq (srho st (e_link x) 0)) es)
                                            (ssum (fun x => srho st (e_link x) 0) es))); [apply out_perm|].
  intros x y HP. rewrite (ssum_perm _ _ _ HP).
  rewrite (ssum_perm (fun x0 => srho st (e_link x0) 0) _ _ HP). reflexivity.
Qed.

Lemma smerge_perm e : smerge U P g st e = smerge U P g' st e.
Proof.
  unfold smerge. rewrite <- origin_at_perm, <- snode_origin_flow_perm.
  destruct (gdelta P); [|reflexivity]. destruct (origin_at g (e_up e)); [|reflexivity].
  pose proof (in_perm (e_up e)) as HP.
  destruct (in_links g (e_up e)) as [|a l], (in_links g' (e_up e)) as [|a' l'];
    try reflexivity.
  - apply Permutation_nil in HP. discriminate.
  - apply Permutation_sym, Permutation_nil in HP. discriminate.
Qed.

Lemma sdrop_perm e : sdrop U P g e = sdrop U P g' e.
Proof.
  unfold sdrop. destruct (gphi P); [|reflexivity].
  pose proof (out_perm (e_down e)) as HP. pose proof (Permutation_length HP) as HL.
  destruct (out_links g (e_down e)) as [|a [|b l]].
  - apply Permutation_nil in HP. rewrite HP. reflexivity.
  - apply Permutation_length_1_inv in HP. rewrite HP. reflexivity.
  - destruct (out_links g' (e_down e)) as [|a' [|b' l']]; simpl in HL; try lia. reflexivity.
Qed.

Theorem spec_perm e i :
  spec_rho_next U P g st e i = spec_rho_next U P g' st e i /\
  spec_v_next U P g st e i = spec_v_next U P g' st e i.
Proof.
  split.
  - unfold spec_rho_next, sq_up. rewrite sinflow_perm. reflexivity.
  - unfold spec_v_next, sv_up, srho_down. rewrite supspeed_perm, sdowndens_perm, smerge_perm, sdrop_perm.
    reflexivity.
Qed.
End Perm.

(* ---- turn-rate scaling ---- *)
Definition scale_turn (P : params R) (c : nat -> R) (g : graph) : params R :=
  {| lp := fun m p => match p with
                      | Pturn => match nodes_of_link g m with
                                 | Some (u, _) => c u * lp P m Pturn
                                 | None => lp P m Pturn
                                 end
                      | _ => lp P m p
                      end;
     ocap := ocap P; gT := gT P; gtau := gtau P; geta := geta P; gkappa := gkappa P;
     gdelta := gdelta P; gphi := gphi P |}.

Section Scale.
Variable U : universe.
Variable P : params R.
Variable g : graph.
Variable st : state R.
Variable c : nat -> R.
Hypothesis Hc : forall n, c n <> 0.
Hypothesis LINK : forall e, In e (g_edges g) -> nodes_of_link g (e_link e) = Some (e_up e, e_down e).
Hypothesis Hsum : forall e, In e (g_edges g) -> ssum (sturn P) (out_links g (e_up e)) <> 0.

Let P' := scale_turn P c g.

Lemma sturn_scaled e : In e (g_edges g) -> sturn P' e = c (e_up e) * sturn P e.
Proof. intros He. unfold sturn, P', scale_turn. cbn [lp]. rewrite (LINK _ He). reflexivity. Qed.

Lemma ssum_scaled n : ssum (sturn P') (out_links g n) = c n * ssum (sturn P) (out_links g n).
Proof.
  assert (H : forall l, (forall x, In x l -> In x (g_edges g) /\ e_up x = n) ->
              ssum (sturn P') l = c n * ssum (sturn P) l).
  { induction l as [|x l IH]; intros Hl; unfold ssum in *; cbn [fold_right].
    - rewrite zeroR. ring.
    - destruct (Hl x (or_introl eq_refl)) as [Hx Hn]. rewrite IH by (intros; apply Hl; right; auto).
      rewrite (sturn_scaled _ Hx), Hn. change (@add R NumR) with Rplus. ring. }
  apply H. intros x Hx. unfold out_links in Hx. apply filter_In in Hx. destruct Hx as [H1 H2].
  apply Nat.eqb_eq in H2. auto.
Qed.

Lemma sorigin_flow_scaled o m : sorigin_flow U P' st o m = sorigin_flow U P st o m.
Proof. reflexivity. Qed.

Theorem sinflow_scaled e : In e (g_edges g) -> sinflow U P' g st e = sinflow U P g st e.
Proof.
  intros He. unfold sinflow. rewrite ssum_scaled, (sturn_scaled _ He).
  change (snode_Q U P' g st (e_up e)) with (snode_Q U P g st (e_up e)).
  change (@mul R NumR) with Rmult. change (@div R NumR) with Rdiv.
  field. split; [apply Hsum; exact He|apply Hc].
Qed.

Theorem spec_scaled e i : In e (g_edges g) ->
  spec_rho_next U P' g st e i = spec_rho_next U P g st e i /\
  spec_v_next U P' g st e i = spec_v_next U P g st e i.
Proof.
  intros He. split.
  - unfold spec_rho_next, sq_up. rewrite (sinflow_scaled _ He). reflexivity.
  - reflexivity.
Qed.
End Scale.
