From Coq Require Import List String Arith Bool Lia Ascii.
From SM Require Import Num Graph Engine Expr Types Blocks Validity ToFunction.
From SM.gen Require Import EnginesCs.
From SM.specs Require Import C04_spec.
Import ListNotations.
Local Open Scope string_scope.

(* ---- shape of a successful step result ---- *)
Lemma mapM_inv {T V} (f : T -> res V) l ys : mapM f l = Ok ys -> Forall2 (fun x y => f x = Ok y) l ys.
Proof.
  revert ys. induction l as [|a l IH]; intros ys H; cbn [mapM] in H.
  - inversion H. constructor.
  - destruct (f a) as [y|] eqn:Fa; [|discriminate]. cbn [bind] in H.
    destruct (mapM f l) as [r|] eqn:Fr; [|discriminate]. cbn [bind] in H. inversion H; subst.
    constructor; [exact Fa|apply IH; reflexivity].
Qed.

Section Shape.
Context {A : Type} {NA : Num A}.
Variable E : engine A.

Lemma link_step_lengths U P g (st : state A) opts m r v :
  link_step E U P g st opts m = Ok (r, v) ->
  List.length r = List.length (s_rho st m) /\ List.length v = List.length (s_v st m).
Proof.
  unfold link_step. destruct (link_raw E U P g st m) as [[r0 v0]|]; [|discriminate]. cbn [bind fst snd].
  destruct ((List.length _ =? List.length (s_rho st m))%nat && (List.length _ =? List.length (s_v st m))%nat) eqn:C;
    [|discriminate].
  intros H. inversion H; subst. apply andb_true_iff in C. destruct C as [C1 C2].
  apply Nat.eqb_eq in C1, C2. auto.
Qed.

Lemma origin_step_shape U P g (st : state A) opts o r :
  origin_step E U P g st opts o = Ok r ->
  match r with Some _ => is_queued (okind_of U o) = true | None => is_queued (okind_of U o) = false end.
Proof.
  unfold origin_step. destruct (is_queued (okind_of U o)); [|intros H; inversion H; reflexivity].
  destruct (origin_flow E U P g st o); [|discriminate]. cbn [bind]. intros H. inversion H. reflexivity.
Qed.
End Shape.

(* ---- label shapes ---- *)
Definition link_labels (U : universe) (m : nat) : list (elem * string * nat) :=
  [ (EL m, "rho", lN (linkd U m)); (EL m, "v", lN (linkd U m)) ].
Definition origin_labels (U : universe) (o : nat) : list (elem * string * nat) :=
  if is_queued (okind_of U o) then [ (EO o, "w", 1%nat) ] else [].

Lemma label_shape_app {T} (a b : list (elem * string * list T)) :
  label_shape (a ++ b) = (label_shape a ++ label_shape b)%list.
Proof. unfold label_shape. apply map_app. Qed.
Lemma label_shape_flat_map {T X} (f : X -> list (elem * string * list T)) l :
  label_shape (flat_map f l) = flat_map (fun x => label_shape (f x)) l.
Proof. induction l as [|a l IH]; [reflexivity|]. cbn [flat_map]. rewrite label_shape_app, IH. reflexivity. Qed.

Lemma inputs_labels U g :
  label_shape (group_entries U g GX) =
  (flat_map (link_labels U) (link_ids g) ++ flat_map (origin_labels U) (origin_ids g))%list.
Proof.
  unfold group_entries, elements. rewrite !flat_map_app, !label_shape_app.
  assert (HL : label_shape (flat_map (fun el => map (fun ve => (el, snd (fst ve), snd ve))
                             (filter (fun ve => grp_eqb (fst (fst ve)) GX) (elem_vars U el))) (map EL (link_ids g)))
               = flat_map (link_labels U) (link_ids g)).
  { induction (link_ids g) as [|m l IH]; [reflexivity|]. cbn [map flat_map]. rewrite label_shape_app, IH. f_equal.
    unfold elem_vars, link_vars, link_labels.
    assert (Hv : filter (fun ve : var_entry => grp_eqb (fst (fst ve)) GX)
                   match lvsl (linkd U m) with
                   | Some vsl => [(GU, "v_ctrl", map (fun k => ActL m k) (seq 0 (List.length vsl)))]
                   | None => [] end = []) by (destruct (lvsl (linkd U m)); reflexivity).
    clear Hv. destruct (lvsl (linkd U m)); cbn [app filter fst snd grp_eqb map label_shape];
      rewrite !map_length, !seq_length; reflexivity. }
  assert (HO : label_shape (flat_map (fun el => map (fun ve => (el, snd (fst ve), snd ve))
                             (filter (fun ve => grp_eqb (fst (fst ve)) GX) (elem_vars U el))) (map EO (origin_ids g)))
               = flat_map (origin_labels U) (origin_ids g)).
  { induction (origin_ids g) as [|o l IH]; [reflexivity|]. cbn [map flat_map]. rewrite label_shape_app, IH. f_equal.
    unfold elem_vars, origin_vars, origin_labels. destruct (okind_of U o); reflexivity. }
  assert (HD : label_shape (flat_map (fun el => map (fun ve => (el, snd (fst ve), snd ve))
                             (filter (fun ve => grp_eqb (fst (fst ve)) GX) (elem_vars U el))) (map ED (dest_ids g)))
               = []).
  { induction (dest_ids g) as [|d l IH]; [reflexivity|]. cbn [map flat_map]. rewrite label_shape_app, IH.
    unfold elem_vars, dest_vars. destruct (dkind_of U d); reflexivity. }
  rewrite HL, HO, HD, app_nil_r. reflexivity.
Qed.

Lemma net_state_lengths U g opts m :
  mem m (link_ids g) = true ->
  List.length (s_rho (init_state cs_engine opts (net_state U g)) m) = lN (linkd U m) /\
  List.length (s_v (init_state cs_engine opts (net_state U g)) m) = lN (linkd U m).
Proof.
  intros M. unfold init_state, net_state. cbn [s_rho s_v e_max cs_engine]. rewrite M.
  unfold Cs.engine_max, sv. destruct (pi_rho opts), (pi_v opts); rewrite ?map_length, ?seq_length; auto.
Qed.

Lemma outputs_labels U (P : params expr) g opts out :
  network_step cs_engine U P g opts (net_state U g) = Ok out ->
  label_shape (next_entries out) =
  (flat_map (link_labels U) (link_ids g) ++ flat_map (origin_labels U) (origin_ids g))%list.
Proof.
  unfold network_step. set (st' := init_state cs_engine opts (net_state U g)).
  destruct (mapM _ (map fst (origins_dict g))) as [ws|] eqn:Hw; [|discriminate]. cbn [bind].
  destruct (mapM _ (links g)) as [ls|] eqn:Hl; [|discriminate]. cbn [bind]. intros H. inversion H; subst out. clear H.
  unfold next_entries. cbn [o_links o_queues]. rewrite label_shape_app. f_equal.
  - apply mapM_inv in Hl. unfold link_ids.
    assert (Hmem : forall e, In e (links g) -> mem (e_link e) (link_ids g) = true).
    { intros e He. unfold mem, link_ids. apply existsb_exists. exists (e_link e). split; [apply in_map; exact He|apply Nat.eqb_refl]. }
    revert Hmem. induction Hl as [|e y l l' Hy HF IH]; intros Hmem; [reflexivity|].
    cbn [flat_map map]. rewrite label_shape_app, IH by (intros e' He'; apply Hmem; right; exact He'). f_equal.
    destruct (link_step cs_engine U P g st' opts (e_link e)) as [[r v]|] eqn:Hs; [|discriminate]. cbn [bind] in Hy.
    inversion Hy; subst y. cbn [fst snd label_shape map link_labels].
    destruct (link_step_lengths cs_engine U P g st' opts (e_link e) r v Hs) as [Lr Lv].
    destruct (net_state_lengths U g opts (e_link e) (Hmem e (or_introl eq_refl))) as [Nr Nv]. fold st' in Nr, Nv.
    rewrite Lr, Lv, Nr, Nv. reflexivity.
  - apply mapM_inv in Hw. unfold origin_ids.
    induction Hw as [|o y l l' Hy HF IH]; [reflexivity|].
    cbn [flat_map map]. rewrite label_shape_app, IH. f_equal.
    destruct (origin_step cs_engine U P g st' opts o) as [r|] eqn:Hs; [|discriminate]. cbn [bind] in Hy.
    inversion Hy; subst y. cbn [fst snd]. pose proof (origin_step_shape cs_engine U P g st' opts o r Hs) as Hq.
    unfold origin_labels. destruct r; rewrite Hq; reflexivity.
Qed.

(* ---- regrouping only looks at names and sizes ---- *)
Fixpoint regroup_add_n (k : string) (n : nat) (acc : list (string * nat)) : list (string * nat) :=
  match acc with
  | [] => [(k, n)]
  | (k', n') :: acc' => if String.eqb k' k then (k', (n' + n)%nat) :: acc' else (k', n') :: regroup_add_n k n acc'
  end.
Definition regroup_n (l : list (string * nat)) : list (string * nat) :=
  fold_left (fun acc kv => regroup_add_n (fst kv) (snd kv) acc) l [].

Lemma name_shape_regroup_add {T} k (v : list T) acc :
  name_shape (regroup_add k v acc) = regroup_add_n k (List.length v) (name_shape acc).
Proof.
  induction acc as [|[k' v'] acc IH]; [reflexivity|]. cbn [regroup_add name_shape map fst snd regroup_add_n].
  destruct (String.eqb k' k); cbn [name_shape map fst snd]; [rewrite app_length; reflexivity|].
  fold (name_shape (regroup_add k v acc)). rewrite IH. reflexivity.
Qed.
Lemma name_shape_fold {T} (l : list (string * list T)) : forall acc,
  name_shape (fold_left (fun a kv => regroup_add (fst kv) (snd kv) a) l acc) =
  fold_left (fun a kv => regroup_add_n (fst kv) (snd kv) a) (name_shape l) (name_shape acc).
Proof.
  induction l as [|[k v] l IH]; intros acc; [reflexivity|].
  change (fold_left (fun a kv => regroup_add (fst kv) (snd kv) a) ((k, v) :: l) acc)
    with (fold_left (fun a kv => regroup_add (fst kv) (snd kv) a) l (regroup_add k v acc)).
  rewrite IH, name_shape_regroup_add. reflexivity.
Qed.
Lemma name_shape_regroup {T} (l : list (string * list T)) : name_shape (regroup l) = regroup_n (name_shape l).
Proof. unfold regroup, regroup_n. rewrite name_shape_fold. reflexivity. Qed.

Lemma append_plus_inj a b : a ++ "+" = b ++ "+" -> a = b.
Proof.
  revert b. induction a as [|c a IH]; intros [|d b] H; cbn in H; try reflexivity.
  - inversion H. destruct b; discriminate.
  - inversion H. destruct a; discriminate.
  - inversion H. f_equal. apply IH. assumption.
Qed.
Lemma eqb_plus a b : String.eqb (a ++ "+") (b ++ "+") = String.eqb a b.
Proof.
  destruct (String.eqb_spec a b) as [->|Hne]; [apply String.eqb_refl|].
  apply String.eqb_neq. intros H. apply Hne. apply append_plus_inj. exact H.
Qed.
Definition plus (x : string * nat) : string * nat := (fst x ++ "+", snd x).
Lemma regroup_add_n_plus k n acc :
  regroup_add_n (k ++ "+") n (map plus acc) = map plus (regroup_add_n k n acc).
Proof.
  induction acc as [|[k' n'] acc IH]; [reflexivity|]. cbn [map plus fst snd regroup_add_n].
  rewrite eqb_plus. destruct (String.eqb k' k); [reflexivity|]. cbn [map]. rewrite IH. reflexivity.
Qed.
Lemma regroup_n_plus l : regroup_n (map plus l) = map plus (regroup_n l).
Proof.
  unfold regroup_n. change (@nil (string * nat)) with (map plus []) at 1.
  generalize (@nil (string * nat)). induction l as [|[k n] l IH]; intros acc; [reflexivity|].
  cbn [fold_left map plus fst snd]. rewrite regroup_add_n_plus. apply IH.
Qed.

Lemma concat_regroup_length {T} (l : list (string * list T)) :
  List.length (List.concat (map snd (regroup l))) = List.length (List.concat (map snd l)).
Proof.
  assert (Hadd : forall k (v : list T) acc,
             List.length (List.concat (map snd (regroup_add k v acc))) =
             (List.length (List.concat (map snd acc)) + List.length v)%nat).
  { intros k v acc. induction acc as [|[k' v'] acc IH]; cbn [regroup_add map snd List.concat].
    - rewrite app_nil_r. reflexivity.
    - destruct (String.eqb k' k); cbn [map snd List.concat]; rewrite !app_length; [lia|rewrite IH; lia]. }
  unfold regroup.
  assert (H : forall acc, List.length (List.concat (map snd (fold_left (fun a kv => regroup_add (fst kv) (snd kv) a) l acc))) =
                          (List.length (List.concat (map snd acc)) + List.length (List.concat (map snd l)))%nat).
  { induction l as [|[k v] l IH]; intros acc; cbn [fold_left map snd List.concat fst]; [cbn [List.length]; lia|].
    rewrite IH, Hadd, app_length. lia. }
  rewrite H. reflexivity.
Qed.

Lemma concat_length_shape {T} (l : list (string * list T)) :
  List.length (List.concat (map snd l)) = fold_right (fun x acc => (snd x + acc)%nat) 0%nat (name_shape l).
Proof. induction l as [|[k v] l IH]; [reflexivity|]. cbn. rewrite app_length. fold (name_shape l). rewrite IH. reflexivity. Qed.

Theorem positional_successor_proof : positional_successor.
Proof.
  intros U P g opts out Hs.
  assert (H0 : label_shape (group_entries U g GX) = label_shape (next_entries out))
    by (rewrite inputs_labels, (outputs_labels U P g opts out Hs); reflexivity).
  assert (Hn : map plus (name_shape (map (fun x => (snd (fst x), snd x)) (group_entries U g GX))) =
               name_shape (map (fun x => (snd (fst x) ++ "+", snd x)) (next_entries out))).
  { unfold name_shape. rewrite !map_map. cbn [fst snd plus].
    assert (Hl : forall T1 T2 (a : list (elem * string * list T1)) (b : list (elem * string * list T2)),
               label_shape a = label_shape b ->
               map (fun x => plus (snd (fst x), List.length (snd x))) a =
               map (fun x => (snd (fst x) ++ "+", List.length (snd x))) b).
    { intros T1 T2 a. induction a as [|x a IH]; intros [|y b] E; cbn in E; try discriminate; [reflexivity|].
      inversion E as [[E1 E2 E3 E4]]. cbn [map plus fst snd]. rewrite E2, E3. f_equal. apply IH. exact E4. }
    apply Hl. exact H0. }
  split; [exact H0|]. split.
  - unfold outputs_level1. rewrite !name_shape_regroup, <- Hn, regroup_n_plus. reflexivity.
  - unfold outputs_level1. rewrite !concat_regroup_length, !concat_length_shape, <- Hn.
    generalize (name_shape (map (fun x => (snd (fst x), snd x)) (group_entries U g GX))).
    intros l. induction l as [|[k n] l IH]; [reflexivity|]. cbn [map plus fold_right fst snd]. rewrite IH. reflexivity.
Qed.
