From Coq Require Import List ZArith Bool Lia ZifyBool.
From SM.gen Require Import Tables.
From SM.specs Require Import SourceFacts_spec.

Theorem validation_reports_and_raises_together_proof : validation_reports_and_raises_together.
Proof. repeat split; vm_compute; reflexivity. Qed.
