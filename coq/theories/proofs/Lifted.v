(* Lifted.v — finiteness of a whole step.  The element-layer model (Blocks.v) run on the partial reals
   (NumPR: None = a nan / inf born from finite input) from finite inputs equals, entry by entry, the
   injection of the same model run on the reals, for EVERY graph (valid or not: then both report the same
   Python failure), provided the inputs are admissible: non-negative densities (exact zeros allowed),
   positive lengths, lanes, rho_crit, a, tau, kappa, T; for mainstream origins non-negative speed limit
   and first speed (zero allowed: the log-ratio guard) and positive v_free; rho_crit < rho_max for ramps;
   and excluding only the model's own 0/0: a merge whose total last-segment inflow is zero, a bifurcation
   whose total first-segment density is zero (and turn rates summing to zero).  No result of the step is
   undefined.  Proof: every primitive of the engine record commutes with the injection on its domain
   (EnginesFin.v, LiftPrims.v); the element-layer glue is walked once. *)
From Coq Require Import Reals Qreals List Lia Lra String Bool Arith FunctionalExtensionality.
From SM Require Import Num NumR NumPR Graph Engine Expr Types Blocks.
From SM.gen Require Import EnginesNp EnginesCs.
From SM.specs Require Import C15fin_spec C07fin_spec.
From SM.proofs Require Import VecR PrimR EnginesEq EnginesFin LiftPrims.
From Coq Require Import List.
Import ListNotations.
Local Open Scope R_scope.

Lemma mapM_mapres {T V W} (f1 : T -> res V) (f2 : T -> res W) (h : W -> V) l :
  (forall x, In x l -> f1 x = mapres h (f2 x)) -> mapM f1 l = mapres (map h) (mapM f2 l).
Proof.
  induction l as [|x l IH]; intros H; [reflexivity|]. cbn [mapM].
  rewrite (H x (or_introl eq_refl)). destruct (f2 x) as [y|e]; cbn [mapres bind]; [|reflexivity].
  rewrite IH by (intros z Hz; apply H; right; exact Hz). destruct (mapM f2 l); reflexivity.
Qed.

Section Lifted.
Variable U : universe.
Variable P : params R.
Variable g : graph.
Variable st : state R.          (* the state the elements are stepped from (after init_vars) *)

Notation EP := (@np_engine PR NumPR).
Notation ER := (@np_engine R NumR).
Notation PP := (liftP P).
Notation SP := (liftS st).

(* ---- admissibility ---- *)
Definition link_adm (m : nat) : Prop :=
  Forall (fun x => 0 <= x) (s_rho st m) /\ 0 < lp P m PL /\ 0 < Q2R (llanes (linkd U m)) /\
  0 < lp P m Prhocrit /\ 0 < lp P m Pa /\
  (1 <= List.length (s_v st m))%nat /\ List.length (s_rho st m) = List.length (s_v st m).
Definition origin_adm (o m : nat) : Prop :=
  match okind_of U o with
  | OIdeal => True
  | OMain => 0 <= s_uo st o /\ 0 <= vfirst (s_v st m) /\ 0 < lp P m Pvfree /\
             0 < lp P m Prhocrit /\ 0 < lp P m Pa
  | ORamp _ | OSimp _ => lp P m Prhocrit < lp P m Prhomax
  end.
Definition merge_inflow (n : nat) : R :=
  vsum (map (fun e => vlast (link_flow ER U st (e_link e))) (in_links g n)).
Definition bifurcation_density (n : nat) : R :=
  vsum (map (fun e => vfirst (s_rho st (e_link e))) (out_links g n)).
Definition turn_sum (n : nat) : R :=
  vsum (map (fun e => lp P (e_link e) Pturn) (out_links g n)).

Record admissible : Prop := {
  adm_T : 0 < gT P; adm_tau : 0 < gtau P; adm_kappa : 0 < gkappa P;
  adm_link : forall e, In e (g_edges g) -> link_adm (e_link e);
  adm_origin : forall o m, exiting_link g o = Ok m -> origin_adm o m;
  adm_turn : forall n, out_links g n <> [] -> turn_sum n <> 0;
  (* the model's own 0/0 are excluded *)
  adm_merge : forall n, (2 <= List.length (in_links g n))%nat -> merge_inflow n <> 0;
  adm_bifurcation : forall n, dest_at g n = None -> (2 <= List.length (out_links g n))%nat ->
                              bifurcation_density n <> 0 }.
Hypothesis ADM : admissible.

Lemma lanes_lift m : @lanes PR NumPR U m = Some (@lanes R NumR U m).
Proof. reflexivity. Qed.

Lemma link_flow_lift m : link_flow EP U SP m = somes (link_flow ER U st m).
Proof. unfold link_flow. cbn [e_flow np_engine s_rho s_v liftS]. rewrite lanes_lift. apply np_flow_finite. Qed.

Lemma origin_speed_lift o : origin_speed g SP o = mapres Some (origin_speed g st o).
Proof.
  unfold origin_speed. destruct (exiting_link g o) as [m|e]; cbn [bind mapres]; [|reflexivity].
  cbn [s_v liftS]. rewrite vfirst_somes. reflexivity.
Qed.

Lemma origin_flow_lift o : origin_flow EP U PP g SP o = mapres Some (origin_flow ER U P g st o).
Proof.
  unfold origin_flow. destruct (exiting_link g o) as [m|e] eqn:Hex; cbn [bind mapres]; [|reflexivity].
  f_equal. pose proof (adm_origin ADM o m Hex) as Ho. unfold origin_adm in Ho.
  pose proof (adm_T ADM) as HT.
  destruct (okind_of U o) as [| |is_in|lim].
  - rewrite link_flow_lift. apply vfirst_somes.
  - destruct Ho as (H1 & H2 & H3 & H4 & H5).
    cbn [e_main np_engine s_do s_w s_uo s_v liftS lp gT liftP]. rewrite vfirst_somes, lanes_lift.
    apply np_main_lift; assumption.
  - cbn [e_ramp np_engine s_do s_w s_uo s_rho liftS lp gT ocap liftP]. rewrite vfirst_somes.
    apply np_ramp_lift; assumption.
  - cbn [e_simp np_engine s_do s_w s_uo s_rho liftS lp gT ocap liftP]. rewrite vfirst_somes.
    apply np_simp_lift; assumption.
Qed.

Lemma dest_density_lift d : dest_density EP U PP g SP d = mapres Some (dest_density ER U P g st d).
Proof.
  unfold dest_density. destruct (entering_link g d) as [m|e]; cbn [bind mapres]; [|reflexivity].
  f_equal. destruct (dkind_of U d); cbn [e_dfree e_dcong np_engine s_rho s_dd liftS lp liftP]; rewrite vlast_somes; reflexivity.
Qed.

Lemma singletons_lift {T} (f : T -> R) (fP : T -> PR) (l : list T) :
  (forall x, fP x = Some (f x)) -> map (fun x => [fP x]) l = map somes (map (fun x => [f x]) l).
Proof. intros H. rewrite map_map. apply map_ext. intros x. rewrite H. reflexivity. Qed.
Lemma vcat_singletons_R {T} (f : T -> R) (l : list T) : e_vcat ER (map (fun x => [f x]) l) = map f l.
Proof. cbn [e_vcat np_engine]. unfold Np.engine_vcat. apply concat_singletons. Qed.

Lemma node_down_density_lift n :
  node_down_density EP U PP g SP n = mapres Some (node_down_density ER U P g st n).
Proof.
  unfold node_down_density. destruct (dest_at g n) as [d|] eqn:Hd; [apply dest_density_lift|].
  destruct (out_links g n) as [|e1 [|e2 l]] eqn:Hout; [reflexivity| |].
  - cbn [mapres s_rho liftS]. rewrite vfirst_somes. reflexivity.
  - cbn [mapres]. f_equal. set (es := e1 :: e2 :: l) in *.
    rewrite (singletons_lift (fun e => vfirst (s_rho st (e_link e))) (fun e => vfirst (s_rho SP (e_link e))) es)
      by (intros x; cbn [s_rho liftS]; apply vfirst_somes).
    cbn [e_vcat e_down_dens np_engine]. rewrite np_vcat_lift. apply np_down_dens_lift.
    change (Np.engine_vcat (map (fun e => [vfirst (s_rho st (e_link e))]) es))
      with (e_vcat ER (map (fun e => [vfirst (s_rho st (e_link e))]) es)).
    rewrite vcat_singletons_R.
    pose proof (adm_bifurcation ADM n Hd) as H. unfold bifurcation_density in H. rewrite Hout in H.
    apply H. unfold es. cbn [List.length]. lia.
Qed.

Definition lift2 (p : R * R) : PR * PR := (Some (fst p), Some (snd p)).

Lemma node_up_lift n m : out_links g n <> [] ->
  node_up_speed_flow EP U PP g SP n m = mapres lift2 (node_up_speed_flow ER U P g st n m).
Proof.
  intros Hne. unfold node_up_speed_flow.
  assert (Hov : match origin_at g n with
                | Some o => v_o <- origin_speed g SP o ;; q_o <- origin_flow EP U PP g SP o ;; Ok (Some (v_o, q_o))
                | None => Ok None
                end =
                mapres (option_map lift2)
                  match origin_at g n with
                  | Some o => v_o <- origin_speed g st o ;; q_o <- origin_flow ER U P g st o ;; Ok (Some (v_o, q_o))
                  | None => Ok None
                  end).
  { destruct (origin_at g n) as [o|]; [|reflexivity].
    rewrite origin_speed_lift, origin_flow_lift.
    destruct (origin_speed g st o) as [vo|e]; cbn [mapres bind]; [|reflexivity].
    destruct (origin_flow ER U P g st o) as [qo|e]; reflexivity. }
  rewrite Hov. clear Hov.
  destruct (match origin_at g n with
            | Some o => v_o <- origin_speed g st o ;; q_o <- origin_flow ER U P g st o ;; Ok (Some (v_o, q_o))
            | None => Ok None end) as [ov|e]; cbn [mapres bind]; [|reflexivity].
  destruct (in_links g n) as [|e1 [|e2 l]] eqn:Hin.
  - destruct ov as [[vo qo]|]; reflexivity.
  - cbn [s_v liftS]. rewrite vlast_somes, link_flow_lift, vlast_somes.
    destruct ov as [[vo qo]|]; cbn [option_map lift2 fst snd add NumPR NumR pr2];
      (destruct (1 <? List.length (out_links g n))%nat eqn:Hlen; [|reflexivity];
       unfold lift2; cbn [mapres fst snd]; f_equal; f_equal;
       rewrite (singletons_lift (fun e' => lp P (e_link e') Pturn) (fun e' => lp PP (e_link e') Pturn))
         by (intros x; reflexivity);
       cbn [e_vcat e_up_flow np_engine lp liftP]; rewrite np_vcat_lift;
       match goal with |- context [Np.engine_vcat [[Some ?q]]] =>
         change (Np.engine_vcat [[Some q]]) with (@Np.engine_vcat PR (map somes [[q]])) end;
       rewrite np_vcat_lift;
       change (@None PR) with (option_map (@Some R) None);
       apply np_up_flow_lift;
       change (Np.engine_vcat (map (fun e' => [lp P (e_link e') Pturn]) (out_links g n)))
         with (e_vcat ER (map (fun e' => [lp P (e_link e') Pturn]) (out_links g n)));
       rewrite vcat_singletons_R; apply (adm_turn ADM n Hne)).
  - set (es := e1 :: e2 :: l) in *. unfold lift2 at 2. cbn [mapres fst snd].
    assert (Hm : merge_inflow n <> 0).
    { apply (adm_merge ADM n). rewrite Hin. unfold es. cbn [List.length]. lia. }
    unfold merge_inflow in Hm. rewrite Hin in Hm.
    rewrite (singletons_lift (fun e => vlast (s_v st (e_link e))) (fun e => vlast (s_v SP (e_link e))) es)
      by (intros x; cbn [s_v liftS]; apply vlast_somes).
    rewrite (singletons_lift (fun e => vlast (link_flow ER U st (e_link e)))
                             (fun e => vlast (link_flow EP U SP (e_link e))) es)
      by (intros x; rewrite link_flow_lift; apply vlast_somes).
    rewrite (singletons_lift (fun e' => lp P (e_link e') Pturn) (fun e' => lp PP (e_link e') Pturn))
      by (intros x; reflexivity).
    cbn [e_vcat e_up_speed e_up_flow np_engine lp liftP]. rewrite !np_vcat_lift.
    change (Np.engine_vcat (map (fun e => [vlast (link_flow ER U st (e_link e))]) es))
      with (e_vcat ER (map (fun e => [vlast (link_flow ER U st (e_link e))]) es)).
    change (Np.engine_vcat (map (fun e => [vlast (s_v st (e_link e))]) es))
      with (e_vcat ER (map (fun e => [vlast (s_v st (e_link e))]) es)).
    change (Np.engine_vcat (map (fun e' => [lp P (e_link e') Pturn]) (out_links g n)))
      with (e_vcat ER (map (fun e' => [lp P (e_link e') Pturn]) (out_links g n))).
    rewrite !vcat_singletons_R.
    rewrite np_up_speed_lift by exact Hm.
    assert (Hqo : option_map snd (option_map lift2 ov) = option_map Some (option_map snd ov)).
    { destruct ov as [[vo qo]|]; reflexivity. }
    rewrite Hqo.
    rewrite np_up_flow_lift; [reflexivity|]. apply (adm_turn ADM n Hne).
Qed.

Lemma links_in_edges e : In e (links g) -> In e (g_edges g).
Proof.
  unfold links. intros H. apply in_flat_map in H. destruct H as (ne & _ & H). unfold out_links in H.
  apply filter_In in H. apply H.
Qed.
Lemma nodes_of_link_out m u d : nodes_of_link g m = Some (u, d) -> out_links g u <> [].
Proof.
  unfold nodes_of_link. destruct (find _ _) as [e|] eqn:Hf; [|discriminate]. intros H. inversion H; subst.
  apply find_some in Hf. destruct Hf as [Hin _]. apply in_rev in Hin. apply links_in_edges in Hin.
  intros Hnil. assert (Hx : In e (out_links g (e_up e))).
  { unfold out_links. apply filter_In. split; [exact Hin|apply Nat.eqb_refl]. }
  rewrite Hnil in Hx. destruct Hx.
Qed.

Lemma link_Veq_lift m : link_adm m -> link_Veq EP U PP SP m = somes (link_Veq ER U P st m).
Proof.
  intros (Hr & _ & _ & Hrc & Ha & _). unfold link_Veq. destruct (lvsl (linkd U m)) as [vsl|].
  - cbn [e_cVeq np_engine s_rho s_vc liftS lp liftP]. apply np_cVeq_lift; assumption.
  - cbn [e_Veq np_engine s_rho liftS lp liftP]. apply np_Veq_finite; assumption.
Qed.

Lemma vinit_somes l : vinit (somes l) = somes (vinit l).
Proof.
  unfold vinit, somes. induction l as [|a l IH]; [reflexivity|]. destruct l as [|b l]; [reflexivity|].
  cbn [map removelast] in *. rewrite IH. reflexivity.
Qed.
Lemma vtail_somes l : vtail (somes l) = somes (vtail l).
Proof. destruct l; reflexivity. Qed.

Lemma lanes_drop_lift m d :
  match gphi PP with
  | Some _ =>
      match out_links g d with
      | [e] => if Qeq_bool (llanes (linkd U m) - llanes (linkd U (e_link e)))%Q 0 then None
               else Some (@ofQ PR NumPR (llanes (linkd U m) - llanes (linkd U (e_link e)))%Q)
      | _ => None
      end
  | None => None
  end = option_map Some
  match gphi P with
  | Some _ =>
      match out_links g d with
      | [e] => if Qeq_bool (llanes (linkd U m) - llanes (linkd U (e_link e)))%Q 0 then None
               else Some (@ofQ R NumR (llanes (linkd U m) - llanes (linkd U (e_link e)))%Q)
      | _ => None
      end
  | None => None
  end.
Proof.
  cbn [gphi liftP]. destruct (gphi P); [|reflexivity]. cbn [option_map].
  destruct (out_links g d) as [|e [|e' l']]; try reflexivity.
  destruct (Qeq_bool _ 0); reflexivity.
Qed.

Lemma step_pair_lift m q_up v_up rho_down q_ramp ld :
  link_adm m ->
  (e_step_rho EP (somes (s_rho st m)) (somes (link_flow ER U st m)) (somes q_up) (lanes U m) (lp PP m PL) (gT PP),
   e_step_v EP (somes (s_v st m)) (somes v_up) (somes (s_rho st m)) (somes rho_down)
     (somes (link_Veq ER U P st m)) (lanes U m) (lp PP m PL) (gtau PP) (geta PP) (gkappa PP) (gT PP)
     (option_map Some q_ramp) (gdelta PP) (option_map Some ld) (gphi PP) (Some (lp PP m Prhocrit))) =
  lift_pair
    (e_step_rho ER (s_rho st m) (link_flow ER U st m) q_up (lanes U m) (lp P m PL) (gT P),
     e_step_v ER (s_v st m) v_up (s_rho st m) rho_down (link_Veq ER U P st m) (lanes U m) (lp P m PL)
       (gtau P) (geta P) (gkappa P) (gT P) q_ramp (gdelta P) ld (gphi P) (Some (lp P m Prhocrit))).
Proof.
  intros (Hr & HL & Hlan & Hrc & Ha & Hlen & Hrl). unfold lift_pair. cbn [fst snd]. f_equal.
  - cbn [e_step_rho np_engine lp gT liftP]. rewrite lanes_lift. apply np_density_finite.
    + unfold lanes. change (@ofQ R NumR) with Q2R. lra.
    + lra.
  - cbn [e_step_v np_engine lp gT gtau geta gkappa gdelta gphi liftP]. rewrite lanes_lift.
    change (Some (Some (lp P m Prhocrit))) with (option_map (@Some R) (Some (lp P m Prhocrit))).
    apply np_speed_finite;
      [exact Hr | apply (adm_kappa ADM) | exact HL | unfold lanes; change (@ofQ R NumR) with Q2R; exact Hlan
      | apply (adm_tau ADM) | intros x Hx; inversion Hx; subst; exact Hrc | exact Hlen | exact Hrl].
Qed.

Lemma link_raw_lift m : link_adm m ->
  link_raw EP U PP g SP m = mapres lift_pair (link_raw ER U P g st m).
Proof.
  intros Hadm. unfold link_raw. rewrite (link_Veq_lift m Hadm). unfold link_raw_V.
  destruct (nodes_of_link g m) as [[u d]|] eqn:Hud; cbn [bind mapres fst snd]; [|reflexivity].
  rewrite (node_up_lift u m (nodes_of_link_out m u d Hud)).
  destruct (node_up_speed_flow ER U P g st u m) as [[v0 q0]|e]; cbn [bind mapres]; [|reflexivity].
  rewrite node_down_density_lift.
  destruct (node_down_density ER U P g st d) as [rhoN1|e]; cbn [bind mapres]; [|reflexivity].
  assert (Hqr : match gdelta PP, origin_at g u, in_links g u with
                | Some _, Some o, _ :: _ =>
                    if is_ramp (okind_of U o) then q_o <- origin_flow EP U PP g SP o ;; Ok (Some q_o) else Ok None
                | _, _, _ => Ok None
                end =
                mapres (option_map Some)
                  match gdelta P, origin_at g u, in_links g u with
                  | Some _, Some o, _ :: _ =>
                      if is_ramp (okind_of U o) then q_o <- origin_flow ER U P g st o ;; Ok (Some q_o) else Ok None
                  | _, _, _ => Ok None
                  end).
  { cbn [gdelta liftP]. destruct (gdelta P) as [de|]; [|reflexivity]. cbn [option_map].
    destruct (origin_at g u) as [o|]; [|reflexivity]. destruct (in_links g u); [reflexivity|].
    destruct (is_ramp (okind_of U o)); [|reflexivity]. rewrite origin_flow_lift.
    destruct (origin_flow ER U P g st o); reflexivity. }
  rewrite Hqr. clear Hqr.
  destruct (match gdelta P, origin_at g u, in_links g u with
            | Some _, Some o, _ :: _ =>
                if is_ramp (okind_of U o) then q_o <- origin_flow ER U P g st o ;; Ok (Some q_o) else Ok None
            | _, _, _ => Ok None
            end) as [q_ramp|e]; cbn [bind mapres]; [|reflexivity].
  f_equal. cbn [lift2 fst snd s_rho s_v liftS]. rewrite link_flow_lift, (lanes_drop_lift m d).
  destruct (1 <? lN (linkd U m))%nat.
  - rewrite !vinit_somes, vtail_somes. cbn [e_vcat np_engine].
    change [[Some q0]; somes (vinit (link_flow ER U st m))] with (map somes [[q0]; vinit (link_flow ER U st m)]).
    change [[Some v0]; somes (vinit (s_v st m))] with (map somes [[v0]; vinit (s_v st m)]).
    change [somes (vtail (s_rho st m)); [Some rhoN1]] with (map somes [vtail (s_rho st m); [rhoN1]]).
    rewrite !np_vcat_lift. apply (step_pair_lift m _ _ _ _ _ Hadm).
  - change [Some q0] with (somes [q0]). change [Some v0] with (somes [v0]). change [Some rhoN1] with (somes [rhoN1]).
    apply (step_pair_lift m _ _ _ _ _ Hadm).
Qed.

Lemma link_step_lift opts m : link_adm m ->
  link_step EP U PP g SP opts m = mapres lift_pair (link_step ER U P g st opts m).
Proof.
  intros Hadm. unfold link_step. rewrite (link_raw_lift m Hadm).
  destruct (link_raw ER U P g st m) as [[rn vn]|e]; cbn [bind mapres]; [|reflexivity].
  unfold lift_pair. cbn [fst snd s_rho s_v liftS e_max np_engine].
  change (@zero PR NumPR) with (Some (@zero R NumR)).
  destruct (pn_rho opts), (pn_v opts); rewrite ?np_max_lift, !somes_length;
    destruct ((_ =? _)%nat && (_ =? _)%nat); reflexivity.
Qed.

Lemma origin_step_lift opts o :
  origin_step EP U PP g SP opts o = mapres (option_map Some) (origin_step ER U P g st opts o).
Proof.
  unfold origin_step. destruct (is_queued (okind_of U o)); [|reflexivity].
  rewrite origin_flow_lift. destruct (origin_flow ER U P g st o) as [q|e]; cbn [bind mapres]; [|reflexivity].
  f_equal. cbn [option_map]. f_equal. cbn [e_step_w e_max_s np_engine s_w s_do liftS gT liftP].
  rewrite np_step_queue_lift. destruct (pn_w opts); reflexivity.
Qed.
End Lifted.

(* init_vars with the positive_init_* options commutes with the injection *)
Lemma init_state_lift opts st :
  init_state (@np_engine PR NumPR) opts (liftS st) = liftS (init_state (@np_engine R NumR) opts st).
Proof.
  unfold init_state, liftS. cbn [s_rho s_v s_w s_uo s_do s_vc s_dd].
  f_equal; apply functional_extensionality; intros x.
  - destruct (pi_rho opts); [|reflexivity]. cbn [e_max np_engine]. apply (np_max_lift (@zero R NumR)).
  - destruct (pi_v opts); [|reflexivity]. cbn [e_max np_engine]. apply (np_max_lift (@zero R NumR)).
  - destruct (pi_w opts); reflexivity.
Qed.

(* ---- the whole step ---- *)
Theorem network_step_lift U P g opts st :
  admissible U P g (init_state (@np_engine R NumR) opts st) ->
  network_step (@np_engine PR NumPR) U (liftP P) g opts (liftS st) =
  mapres lift_out (network_step (@np_engine R NumR) U P g opts st).
Proof.
  intros ADM. unfold network_step. cbv zeta. rewrite init_state_lift.
  set (st' := init_state (@np_engine R NumR) opts st) in *.
  rewrite (mapM_mapres _ (fun o => r <- origin_step (@np_engine R NumR) U P g st' opts o ;; Ok (o, r))
             (fun x => (fst x, option_map Some (snd x)))).
  2:{ intros o _. rewrite (origin_step_lift U P g st' ADM).
      destruct (origin_step (@np_engine R NumR) U P g st' opts o); reflexivity. }
  destruct (mapM _ (map fst (origins_dict g))) as [ws|e]; cbn [bind mapres]; [|reflexivity].
  rewrite (mapM_mapres _ (fun e => r <- link_step (@np_engine R NumR) U P g st' opts (e_link e) ;; Ok (e_link e, r))
             (fun x => (fst x, lift_pair (snd x)))).
  2:{ intros e He. rewrite (link_step_lift U P g st' ADM opts (e_link e)).
      - destruct (link_step (@np_engine R NumR) U P g st' opts (e_link e)); reflexivity.
      - apply (adm_link _ _ _ _ ADM). apply (links_in_edges g). exact He. }
  destruct (mapM _ (links g)) as [ls|e]; reflexivity.
Qed.
