(* ValidGenTie.v — Validity.is_valid_msgs = the regenerated Network.is_valid (gen/ValidGen.v). *)
From Coq Require Import List Arith Bool Lia.
From SM Require Import Graph Types Validity ValidSupport.
From SM.gen Require Import ValidGen.
From SM.specs Require Import ValidGen_spec.
From SM.proofs Require Import ValidFacts.
Import ListNotations.

Lemma fold_report {X} (body : list msg -> X -> list msg) (F : X -> list msg) :
  (forall m x, body m x = m ++ F x) ->
  forall l init, fold_left body l init = init ++ flat_map F l.
Proof.
  intros H l; induction l as [|x l IH]; intros init; cbn [fold_left flat_map].
  - rewrite app_nil_r; reflexivity.
  - rewrite IH, H, app_assoc; reflexivity.
Qed.

Lemma flat_map_map {X Y Z} (h : X -> Y) (F : Y -> list Z) l :
  flat_map F (map h l) = flat_map (fun x => F (h x)) l.
Proof. induction l as [|x l IH]; cbn; [reflexivity|rewrite IH; reflexivity]. Qed.

(* ---- pass (1): counting ---- *)
Lemma elem_eqb_refl x : elem_eqb x x = true.
Proof. apply elem_eqb_eq; reflexivity. Qed.
Lemma elem_eqb_sym x y : elem_eqb x y = elem_eqb y x.
Proof.
  destruct (elem_eqb x y) eqn:E, (elem_eqb y x) eqn:E'; try reflexivity.
  - apply elem_eqb_eq in E; subst; rewrite elem_eqb_refl in E'; discriminate.
  - apply elem_eqb_eq in E'; subst; rewrite elem_eqb_refl in E; discriminate.
Qed.

Lemma cnt_get_set_same c k v d : cnt_get (cnt_set c k v) k d = v.
Proof.
  induction c as [|[k' v'] c IH]; cbn.
  - rewrite elem_eqb_refl; reflexivity.
  - destruct (elem_eqb k' k) eqn:E; cbn; rewrite E; [reflexivity|exact IH].
Qed.
Lemma cnt_get_set_other c k v x d : elem_eqb k x = false -> cnt_get (cnt_set c k v) x d = cnt_get c x d.
Proof.
  intros Hkx; induction c as [|[k' v'] c IH]; cbn.
  - rewrite Hkx; reflexivity.
  - destruct (elem_eqb k' k) eqn:E; cbn.
    + apply elem_eqb_eq in E; subst k'. rewrite Hkx; reflexivity.
    + destruct (elem_eqb k' x); [reflexivity|exact IH].
Qed.

Definition counts_seen (c : list (elem * nat)) (seen : list elem) : Prop :=
  forall x, (1 <=? cnt_get c x 0) = existsb (elem_eqb x) seen.

Lemma pass1_is_dup_msgs g l : forall c seen m,
  counts_seen c seen ->
  snd (fold_left (gen_pass1_body g) l (c, m)) = m ++ dup_msgs seen l.
Proof.
  induction l as [|x l IH]; intros c seen m Inv; cbn [fold_left dup_msgs].
  - rewrite app_nil_r; reflexivity.
  - unfold gen_pass1_body at 2. cbv zeta.
    assert (Hlt : (1 <? cnt_get c x 0 + 1) = existsb (elem_eqb x) seen).
    { rewrite <- Inv. destruct (Nat.leb_spec 1 (cnt_get c x 0)), (Nat.ltb_spec 1 (cnt_get c x 0 + 1)); (reflexivity || lia). }
    rewrite Hlt, (IH _ (x :: seen)).
    + destruct (existsb (elem_eqb x) seen); cbn [app]; rewrite <- ?app_assoc; reflexivity.
    + intros y. cbn [existsb]. destruct (elem_eqb y x) eqn:E.
      * apply elem_eqb_eq in E; subst y. rewrite cnt_get_set_same. cbn [orb].
        destruct (Nat.leb_spec 1 (cnt_get c x 0 + 1)); (reflexivity || lia).
      * rewrite cnt_get_set_other by (rewrite elem_eqb_sym; exact E). cbn [orb]. apply Inv.
Qed.

Lemma pass1_iter_is_counted g : gen_pass1_iter g = counted g.
Proof. unfold gen_pass1_iter, counted, gen_yield_origin_destination_yielder. rewrite map_map. reflexivity. Qed.

(* ---- passes (2)-(4): one report list per visited object ---- *)
Lemma fold_report_map {X Y} (h : X -> Y) (body : list msg -> Y -> list msg) (F : X -> list msg) :
  (forall m x, body m (h x) = m ++ F x) ->
  forall l init, fold_left body (map h l) init = init ++ flat_map F l.
Proof.
  intros H l; induction l as [|x l IH]; intros init; cbn [fold_left flat_map map].
  - rewrite app_nil_r; reflexivity.
  - rewrite IH, H, app_assoc; reflexivity.
Qed.

Ltac split_ifs :=
  repeat match goal with
         | |- context [if ?c then _ else _] => destruct c
         end.

Lemma pass2_body g m ne : gen_pass2_body g m (nid ne, ne) = m ++ node_msgs g ne.
Proof.
  unfold gen_pass2_body, node_msgs. cbv zeta.
  destruct (n_orig ne), (n_dest ne), (length (in_links g (nid ne))), (length (out_links g (nid ne)));
    cbn; rewrite <- ?app_assoc, ?app_nil_r; reflexivity.
Qed.

Lemma pass3_body U g m x : gen_pass3_body U g m x = m ++ origin_msgs U g x.
Proof.
  destruct x as [o n]. unfold gen_pass3_body, origin_msgs, is_ramp. cbv zeta.
  destruct (okind_of U o), (in_links g n), (out_links g n) as [|e1 [|e2 l2]];
    cbn; rewrite <- ?app_assoc, ?app_nil_r; reflexivity.
Qed.

Lemma pass4_body g m x : gen_pass4_body g m x = m ++ dest_msgs g x.
Proof.
  destruct x as [d n]. unfold gen_pass4_body, dest_msgs. cbv zeta.
  destruct (in_links g n) as [|e1 [|e2 l2]], (out_links g n);
    cbn; rewrite <- ?app_assoc, ?app_nil_r; reflexivity.
Qed.

Theorem validity_model_is_the_regenerated_code_proof : validity_model_is_the_regenerated_code.
Proof.
  intros U g. unfold gen_is_valid_msgs, is_valid_msgs. cbv zeta.
  destruct (fold_left (gen_pass1_body g) (gen_pass1_iter g) ([], [])) as [c1 m1] eqn:E1.
  assert (H1 : m1 = dup_msgs [] (counted g)).
  { change m1 with (snd (c1, m1)). rewrite <- E1, pass1_iter_is_counted.
    rewrite (pass1_is_dup_msgs g (counted g) [] [] []); [reflexivity|intros x; reflexivity]. }
  unfold gen_pass2_iter, gen_pass3_iter, gen_pass4_iter.
  rewrite (fold_report_map _ _ _ (pass2_body g)).
  rewrite (fold_report _ _ (pass3_body U g)).
  rewrite (fold_report _ _ (pass4_body g)).
  subst m1. rewrite <- !app_assoc. reflexivity.
Qed.

Theorem validb_is_the_regenerated_verdict_proof : validb_is_the_regenerated_verdict.
Proof. intros U g. unfold validb. rewrite validity_model_is_the_regenerated_code_proof. reflexivity. Qed.

Theorem regenerated_code_has_four_passes_proof : regenerated_code_has_four_passes.
Proof. reflexivity. Qed.
