(* VecR.v — lemmas on the vector combinators of Num.v (any Num) and on the real instance. *)
From Coq Require Import Reals Qreals List Lia Lra.
From SM Require Import Num NumR.
From Coq Require Import List.
Import ListNotations.
Local Open Scope R_scope.

Section Poly.
Context {A : Type} {NA : Num A}.

Lemma vv_length f (a b : list A) : length (vv f a b) = Nat.min (length a) (length b).
Proof. unfold vv. rewrite map_length, combine_length. reflexivity. Qed.
Lemma vs_length f (a : list A) s : length (vs f a s) = length a.
Proof. unfold vs. apply map_length. Qed.
Lemma sv_length f s (b : list A) : length (sv f s b) = length b.
Proof. unfold sv. apply map_length. Qed.

Lemma nth_vv f (a b : list A) i d :
  (i < length a)%nat -> (i < length b)%nat ->
  nth i (vv f a b) d = f (nth i a d) (nth i b d).
Proof.
  unfold vv. revert b i. induction a as [|x a IH]; intros [|y b] [|i] Ha Hb; simpl in *; try lia.
  - reflexivity.
  - apply IH; lia.
Qed.
Lemma nth_vs f (a : list A) s i d : (i < length a)%nat -> nth i (vs f a s) d = f (nth i a d) s.
Proof.
  unfold vs. revert i. induction a as [|x a IH]; intros [|i] Ha; simpl in *; try lia.
  - reflexivity.
  - apply IH; lia.
Qed.
Lemma nth_sv f s (b : list A) i d : (i < length b)%nat -> nth i (sv f s b) d = f s (nth i b d).
Proof.
  unfold sv. revert i. induction b as [|x b IH]; intros [|i] Hb; simpl in *; try lia.
  - reflexivity.
  - apply IH; lia.
Qed.
Lemma nth_map1 (f : A -> A) (a : list A) i d : (i < length a)%nat -> nth i (map f a) d = f (nth i a d).
Proof.
  revert i. induction a as [|x a IH]; intros [|i] Ha; simpl in *; try lia.
  - reflexivity.
  - apply IH; lia.
Qed.

Lemma upd_first_length f (x : list A) : length (upd_first f x) = length x.
Proof. destruct x; reflexivity. Qed.
Lemma upd_last_length f (x : list A) : length (upd_last f x) = length x.
Proof. induction x as [|a x IH]; [reflexivity|]. destruct x as [|b x]; [reflexivity|].
  change (upd_last f (a :: b :: x)) with (a :: upd_last f (b :: x)). simpl in *. auto. Qed.
Lemma nth_upd_first f (x : list A) i d :
  nth i (upd_first f x) d = match x, i with _ :: _, O => f (nth 0 x d) | _, _ => nth i x d end.
Proof. destruct x, i; reflexivity. Qed.
Lemma nth_upd_last f (x : list A) i d :
  (i < length x)%nat ->
  nth i (upd_last f x) d = if Nat.eqb i (length x - 1) then f (nth i x d) else nth i x d.
Proof.
  revert i. induction x as [|a x IH]; intros i Hi; [simpl in Hi; lia|].
  destruct x as [|b x].
  - simpl in *. destruct i; [reflexivity | lia].
  - change (upd_last f (a :: b :: x)) with (a :: upd_last f (b :: x)).
    destruct i; [reflexivity|]. specialize (IH i ltac:(simpl in *; lia)).
    cbn [nth]. rewrite IH. cbn [length]. rewrite !Nat.sub_succ, !Nat.sub_0_r.
    reflexivity.
Qed.
Lemma vlast_nth (x : list A) : vlast x = nth (length x - 1) x zero.
Proof.
  unfold vlast. induction x as [|a x IH]; [reflexivity|]. destruct x as [|b x]; [reflexivity|].
  change (last (a :: b :: x) zero) with (last (b :: x) zero). rewrite IH.
  cbn [length]. rewrite !Nat.sub_succ, !Nat.sub_0_r. reflexivity.
Qed.
Lemma set_nth_length i y (x : list A) : length (set_nth i y x) = length x.
Proof. revert i; induction x as [|a x IH]; intros [|i]; simpl; auto. Qed.
Lemma scatter_length idx vals (x : list A) : length (scatter idx vals x) = length x.
Proof.
  revert vals x; induction idx as [|i idx IH]; intros [|v vals] x; simpl; auto.
  rewrite IH. apply set_nth_length.
Qed.
Lemma nth_set_nth i j y (x : list A) d :
  nth j (set_nth i y x) d = if (Nat.eqb i j && Nat.ltb i (length x))%bool then y else nth j x d.
Proof.
  revert i j; induction x as [|a x IH]; intros [|i] [|j]; simpl; auto.
  - rewrite Bool.andb_false_r. reflexivity.
  - rewrite IH. reflexivity.
Qed.
Lemma vinit_length (x : list A) : length (vinit x) = (length x - 1)%nat.
Proof.
  unfold vinit. induction x as [|a x IH]; [reflexivity|]. destruct x as [|b x]; [reflexivity|].
  change (removelast (a :: b :: x)) with (a :: removelast (b :: x)). cbn [length] in *. rewrite IH. lia.
Qed.
Lemma nth_vinit (x : list A) i d : (i < length x - 1)%nat -> nth i (vinit x) d = nth i x d.
Proof.
  unfold vinit. revert i. induction x as [|a x IH]; intros i Hi; [simpl in Hi; lia|].
  destruct x as [|b x]; [simpl in Hi; lia|].
  change (removelast (a :: b :: x)) with (a :: removelast (b :: x)).
  destruct i; [reflexivity|]. cbn [nth]. apply IH. cbn [length] in *. lia.
Qed.
Lemma nth_vtail (x : list A) i d : nth i (vtail x) d = nth (S i) x d.
Proof. destruct x; simpl; [destruct i|]; reflexivity. Qed.
Lemma vtail_length (x : list A) : length (vtail x) = (length x - 1)%nat.
Proof. destruct x; simpl; lia. Qed.
End Poly.

(* ---- the real instance ---- *)
Lemma Q2R_0 : Q2R 0 = 0. Proof. unfold Q2R; simpl; lra. Qed.
Lemma Q2R_1 : Q2R 1 = 1. Proof. unfold Q2R; simpl; lra. Qed.
Lemma Q2R_m1 : Q2R ((-1) # 1) = -1. Proof. unfold Q2R; simpl; lra. Qed.
Lemma Q2R_1_20 : Q2R (1 # 20) = / 20. Proof. unfold Q2R; simpl; lra. Qed.
Lemma zeroR : @zero R NumR = 0. Proof. apply Q2R_0. Qed.
Lemma oneR : @one R NumR = 1. Proof. apply Q2R_1. Qed.

Definition Rsum (l : list R) : R := fold_right Rplus 0 l.
Lemma fold_left_Rplus (l : list R) a : fold_left Rplus l a = a + Rsum l.
Proof.
  revert a; induction l as [|x l IH]; intros a; simpl; [lra|]. rewrite IH. lra.
Qed.
Lemma vsum_Rsum (l : list R) : vsum l = Rsum l.
Proof.
  destruct l as [|x l]; simpl; [apply Q2R_0|]. change add with Rplus. apply fold_left_Rplus.
Qed.
Lemma Rsum_app a b : Rsum (a ++ b) = Rsum a + Rsum b.
Proof. induction a as [|x a IH]; simpl; [lra|]. rewrite IH; lra. Qed.
Lemma Rsum_map_concat_singletons {T} (f : T -> R) (l : list T) :
  Rsum (concat (map (fun x => [f x]) l)) = Rsum (map f l).
Proof. induction l as [|x l IH]; simpl; [reflexivity|]. rewrite IH. reflexivity. Qed.
Lemma concat_singletons {T U} (f : T -> U) (l : list T) :
  concat (map (fun x => [f x]) l) = map f l.
Proof. induction l as [|x l IH]; simpl; [reflexivity|]. rewrite IH. reflexivity. Qed.
