(* C14 on the element-layer model: the METANET theorem of C01 (for the regenerated engines) composed
   with the invariances of the specification *)
From Coq Require Import Reals List Permutation Lia.
From SM Require Import Num NumR Graph Engine Expr Types Blocks Spec Validity.
From SM.specs Require Import GraphWF C01_spec C14_spec.
From SM.proofs Require Import SpecPerm ValidFacts C14_proofs.
From Coq Require Import List.
Import ListNotations.
Local Open Scope R_scope.

Lemma Forall2_same_links U P P' g st (l : list edge) r1 r2 :
  Forall2 (link_result_ok U P g st) l r1 -> Forall2 (link_result_ok U P' g st) l r2 ->
  (forall e i, In e l -> spec_rho_next U P' g st e i = spec_rho_next U P g st e i /\
                         spec_v_next U P' g st e i = spec_v_next U P g st e i) ->
  Forall2 (same_results U) r1 r2.
Proof.
  intros F1. revert r2. induction F1 as [|e a l r1 Ha F1 IH]; intros r2 F2 Heq.
  - inversion F2. constructor.
  - inversion F2 as [|e' b l' r2' Hb F2' E1 E2]. subst. constructor.
    + destruct Ha as (A0 & _ & _ & A). destruct Hb as (B0 & _ & _ & B). split; [congruence|].
      intros i Hi. rewrite A0 in Hi. destruct (A i Hi) as [A1 A2]. destruct (B i Hi) as [B1 B2].
      destruct (Heq e i (or_introl eq_refl)) as [C1 C2]. split; congruence.
    + apply IH; [exact F2'|]. intros e0 i He0. apply Heq. right. exact He0.
Qed.

Theorem model_scaling_invariant_proof E : step_is_METANET E -> model_scaling_invariant E.
Proof.
  intros HE U P g st c WFG V WL HT HR Hc Hs.
  destruct (HE U P g st WFG V WL HT HR) as (out & S & FL & _).
  assert (HT' : forall e, In e (g_edges g) -> lp (scale_turn P c g) (e_link e) Pturn <> 0).
  { intros e He. unfold scale_turn. cbn [lp]. destruct (nodes_of_link g (e_link e)) as [[u d]|].
    - apply Rmult_integral_contrapositive_currified; [apply Hc|apply HT; exact He].
    - apply HT; exact He. }
  assert (HR' : forall e, In e (g_edges g) -> lp (scale_turn P c g) (e_link e) Prhocrit <> 0).
  { intros e He. unfold scale_turn. cbn [lp]. apply HR; exact He. }
  destruct (HE U (scale_turn P c g) g st WFG V WL HT' HR') as (out' & S' & FL' & _).
  exists out, out'. split; [exact S|]. split; [exact S'|].
  apply (Forall2_same_links U P (scale_turn P c g) g st (links g)); try assumption.
  intros e i He. apply (scaling_invariant_proof U P g st c WFG V Hc Hs e i).
  apply links_edges. exact He.
Qed.

Theorem model_order_invariant_valid_proof E : step_is_METANET E -> model_order_invariant_valid E.
Proof.
  intros HE U P g g' st WFG WFG' V V' SN WL HT HR.
  destruct SN as [PN PE].
  assert (IN : forall e, In e (g_edges g') -> In e (g_edges g)).
  { intros e He. apply (Permutation_in _ (Permutation_sym PE)). exact He. }
  destruct (HE U P g st WFG V WL HT HR) as (out & S & FL & _).
  destruct (HE U P g' st WFG' V' (fun e He => WL e (IN e He)) (fun e He => HT e (IN e He))
               (fun e He => HR e (IN e He))) as (out' & S' & FL' & _).
  exists out, out'. split; [exact S|]. split; [exact S'|].
  intros e r r' Hr Hr' i Hi.
  exact (model_order_invariant_proof E U P g g' st out out' WFG V (conj PN PE) S S' FL FL' e r r' Hr Hr' i Hi).
Qed.
