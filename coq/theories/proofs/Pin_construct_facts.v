From Coq Require Import List String.
From SM.specs Require Import Pin_construct_spec.
From SM.gen Require Import Pin_construct.

Lemma pin_construct_expected : construct_source_as_modelled pin_construct.
Proof. reflexivity. Qed.
