From Coq Require Import List String Arith Lia.
From SM Require Import Num Graph Engine Expr Types Blocks ToFunction.
From SM.gen Require Import EnginesNp EnginesCs.
From SM.specs Require Import C05_spec.
From SM.proofs Require Import VecR EnginesEq.
From Coq Require Import List.
Import ListNotations.

Section Flows.
Context {A : Type} {NA : Num A}.

Lemma np_link_flow : link_flow_is_rho_v_lanes (@np_engine A NA).
Proof.
  intros U st m i d Hr Hv. unfold link_flow. cbn [e_flow np_engine]. unfold Np.links_get_flow.
  rewrite nth_vs by (rewrite vv_length; lia). rewrite nth_vv by assumption. reflexivity.
Qed.
Lemma cs_link_flow : link_flow_is_rho_v_lanes (@cs_engine A NA).
Proof.
  intros U st m i d Hr Hv. unfold link_flow. cbn [e_flow cs_engine].
  rewrite <- eq_links_get_flow. apply (np_link_flow U st m i d Hr Hv).
Qed.

Lemma used_by_queue (E : engine A) : origin_flow_is_used_by_queue E.
Proof.
  intros U P g st opts o q Hq. unfold origin_step. rewrite Hq.
  destruct (is_queued (okind_of U o)); reflexivity.
Qed.

Lemma used_by_node (E : engine A) : origin_flow_is_used_by_node E.
Proof.
  intros U P g st n m o q v_o Ho Hq Hv. unfold node_up_speed_flow. rewrite Ho, Hv, Hq. cbn [bind].
  destruct (in_links g n) as [|e [|e2 l]]; reflexivity.
Qed.
End Flows.

Lemma flows_same_state (E : engine expr) : flows_from_step_state E.
Proof.
  intros nm U P g opts. unfold link_flow_entries, st1, st0. rewrite !map_map. simpl.
  repeat split; reflexivity.
Qed.
