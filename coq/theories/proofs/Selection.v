From Coq Require Import List String Bool.
From SM Require Import EngineSel.
From SM.specs Require Import C13_spec.
Import ListNotations.

Theorem use_selects_proof fw : use_selects fw.
Proof.
  intros s. split.
  - intros n Hn. unfold sel_step. rewrite Hn. eexists. split; [reflexivity|]. split; reflexivity.
  - intros e. split; reflexivity.
Qed.
Theorem unknown_refused_proof fw : unknown_refused fw.
Proof. intros s. split; [intros n Hn; unfold sel_step; rewrite Hn; reflexivity|reflexivity]. Qed.
Theorem step_keeps_selection_proof fw : step_keeps_selection fw.
Proof. intros s ex. split; [reflexivity|intros ->; reflexivity]. Qed.
Theorem explicit_engine_honoured_proof : explicit_engine_honoured.
Proof. intros s e. reflexivity. Qed.

Theorem forwarding_sound_proof : forwarding_sound.
Proof.
  intros calls path E e Hall Hincl. unfold all_fwd in Hall. rewrite forallb_forall in Hall.
  induction path as [|c path IH]; [reflexivity|]. simpl.
  rewrite (Hall c (Hincl c (or_introl eq_refl))). apply IH. intros x Hx. apply Hincl. right. exact Hx.
Qed.
