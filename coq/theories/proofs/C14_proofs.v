From Coq Require Import Reals List Permutation Lia.
From SM Require Import Num NumR Graph Engine Expr Types Blocks Spec Validity.
From SM.specs Require Import GraphWF C01_spec C14_spec.
From SM.proofs Require Import SpecPerm ValidFacts.
From Coq Require Import List.
Import ListNotations.
Local Open Scope R_scope.

Theorem order_invariant_proof : order_invariant.
Proof.
  intros U P g g' st WFG V [PN PE] e i.
  pose proof (validb_vfacts U g WFG V) as VF.
  apply spec_perm; try assumption. intros n o Ho. exact (vf_orig_out _ _ VF _ _ Ho).
Qed.

Lemma Forall2_combine_In {T V} (Q : T -> V -> Prop) l l' x y :
  Forall2 Q l l' -> In (x, y) (combine l l') -> Q x y.
Proof.
  induction 1 as [|a b l l' Hab HF IH]; simpl; [tauto|].
  intros [H|H]; [inversion H; subst; exact Hab|apply IH; exact H].
Qed.

Theorem model_order_invariant_proof E : model_order_invariant E.
Proof.
  intros U P g g' st out out' WFG V SN _ _ F F' e r r' Hr Hr' i Hi.
  destruct (Forall2_combine_In _ _ _ _ _ F Hr) as (_ & _ & _ & H).
  destruct (Forall2_combine_In _ _ _ _ _ F' Hr') as (_ & _ & _ & H').
  destruct (H i Hi) as [A1 A2]. destruct (H' i Hi) as [B1 B2].
  destruct (order_invariant_proof U P g g' st WFG V SN e i) as [C1 C2].
  split; congruence.
Qed.

Theorem scaling_invariant_proof : scaling_invariant.
Proof.
  intros U P g st c WFG V Hc Hs e i He.
  pose proof (validb_vfacts U g WFG V) as VF.
  apply spec_scaled; try assumption. exact (vf_link _ _ VF).
Qed.

Theorem share_is_turnrate_proof : share_is_turnrate.
Proof. intros U P g st e. split; [reflexivity|]. intros i. reflexivity. Qed.
