From Coq Require Import Reals Qreals List Lia Lra.
From SM Require Import Num NumR NumPR.
From SM.gen Require Import EnginesNp EnginesCs.
From SM.specs Require Import C15fin_spec.
From SM.proofs Require Import VecR PrimR EnginesEq.
From Coq Require Import List.
Import ListNotations.
Local Open Scope R_scope.

Ltac numPR := change (@add PR NumPR) with (pr2 Rplus) in *; change (@sub PR NumPR) with (pr2 Rminus) in *;
              change (@mul PR NumPR) with (pr2 Rmult) in *; change (@div PR NumPR) with pr_div in *;
              change (@neg PR NumPR) with (pr1 Ropp) in *; change (@nexp PR NumPR) with (pr1 exp) in *;
              change (@nlog PR NumPR) with pr_log in *; change (@npow PR NumPR) with pr_pow in *;
              change (@nmin PR NumPR) with (pr2 Rmin) in *; change (@nmax PR NumPR) with (pr2 Rmax) in *;
              change (@sq PR NumPR) with (pr1 (fun x : R => x * x)) in *;
              change (@ofQ PR NumPR) with (fun q => Some (Q2R q)) in *.

(* ---- vector combinators on vectors of finite numbers ---- *)
Lemma vv_pr2 f a b : vv (pr2 f) (somes a) (somes b) = somes (vv f a b).
Proof.
  unfold vv, somes. revert b. induction a as [|x a IH]; intros [|y b]; simpl; try reflexivity. rewrite IH. reflexivity.
Qed.
Lemma sv_pr2 f s b : sv (pr2 f) (Some s) (somes b) = somes (sv f s b).
Proof. unfold sv, somes. rewrite !map_map. reflexivity. Qed.
Lemma vs_pr2 f a s : vs (pr2 f) (somes a) (Some s) = somes (vs f a s).
Proof. unfold vs, somes. rewrite !map_map. reflexivity. Qed.
Lemma map_pr1 f a : map (pr1 f) (somes a) = somes (map f a).
Proof. unfold somes. rewrite !map_map. reflexivity. Qed.
Lemma pr_div_ok x y : y <> 0 -> pr_div (Some x) (Some y) = Some (x / y).
Proof. intros H. unfold pr_div. destruct (Req_EM_T y 0); [contradiction|reflexivity]. Qed.
Lemma vs_div a s : s <> 0 -> vs pr_div (somes a) (Some s) = somes (vs Rdiv a s).
Proof.
  intros H. unfold vs, somes. rewrite !map_map. apply map_ext. intros x. apply pr_div_ok. exact H.
Qed.
Lemma vv_div a b : Forall (fun y => y <> 0) b -> vv pr_div (somes a) (somes b) = somes (vv Rdiv a b).
Proof.
  unfold vv, somes. revert a. induction b as [|y b IH]; intros [|x a] H; cbn [map combine fst snd]; try reflexivity.
  inversion H; subst. rewrite pr_div_ok by assumption. rewrite IH by assumption. reflexivity.
Qed.
Lemma pr_pow_ok x y : 0 <= x -> 0 < y -> pr_pow (Some x) (Some y) = Some (Rpow x y).
Proof.
  intros Hx Hy. unfold pr_pow, Rpow. destruct (Rlt_dec 0 x) as [H|H].
  - destruct (Req_EM_T x 0); [lra|reflexivity].
  - destruct (Req_EM_T x 0); [|lra]. destruct (Rlt_dec 0 y); [reflexivity|contradiction].
Qed.
Lemma vs_pow a y : Forall (fun x => 0 <= x) a -> 0 < y -> vs pr_pow (somes a) (Some y) = somes (vs Rpow a y).
Proof.
  intros H Hy. unfold vs, somes. rewrite !map_map. induction H as [|x a Hx Ha IH]; cbn [map]; [reflexivity|].
  rewrite pr_pow_ok by assumption. rewrite IH. reflexivity.
Qed.

(* ---- the link laws ---- *)
Theorem np_flow_finite : flow_finite (@Np.links_get_flow PR NumPR) (@Np.links_get_flow R NumR).
Proof. intros rho v lam. unfold Np.links_get_flow. numPR. rewrite vv_pr2, vs_pr2. reflexivity. Qed.

Theorem np_density_finite : density_finite (@Np.links_step_density PR NumPR) (@Np.links_step_density R NumR).
Proof.
  intros rho q qu lam L T Hl HL. unfold Np.links_step_density. numPR.
  rewrite (pr_div_ok T lam Hl), (pr_div_ok (T / lam) L HL), vv_pr2, sv_pr2, vv_pr2. reflexivity.
Qed.

Lemma vs_div_nonneg a s : 0 < s -> Forall (fun x => 0 <= x) a -> Forall (fun x => 0 <= x) (vs Rdiv a s).
Proof.
  intros Hs H. unfold vs. induction H as [|x a Hx Ha IH]; simpl; constructor; [|exact IH].
  apply Rmult_le_pos; [exact Hx|left; apply Rinv_0_lt_compat; exact Hs].
Qed.

Theorem np_Veq_finite : Veq_finite (@Np.links_Veq PR NumPR) (@Np.links_Veq R NumR).
Proof.
  intros rho vf rc a Hr Hrc Ha. unfold Np.links_Veq. numPR.
  rewrite (vs_div rho rc) by lra.
  rewrite (vs_pow _ a (vs_div_nonneg rho rc Hrc Hr) Ha).
  rewrite (pr_div_ok _ a) by lra. rewrite sv_pr2, map_pr1, sv_pr2. reflexivity.
Qed.

Lemma vfirst_somes l : vfirst (somes l) = Some (vfirst l).
Proof. unfold vfirst, somes. destruct l; reflexivity. Qed.
Lemma vlast_somes l : vlast (somes l) = Some (vlast l).
Proof.
  unfold vlast, somes. induction l as [|a l IH]; [reflexivity|]. destruct l as [|b l]; [reflexivity|].
  change (last (map Some (a :: b :: l)) zero) with (last (map Some (b :: l)) zero).
  change (last (a :: b :: l) zero) with (last (b :: l) zero). exact IH.
Qed.
Lemma upd_first_somes (f : PR -> PR) (f' : R -> R) l :
  (forall x, f (Some x) = Some (f' x)) -> upd_first f (somes l) = somes (upd_first f' l).
Proof. intros H. destruct l as [|a l]; [reflexivity|]. unfold somes. simpl. rewrite H. reflexivity. Qed.
Lemma upd_last_somes (f : PR -> PR) (f' : R -> R) l :
  (forall x, f (Some x) = Some (f' x)) -> upd_last f (somes l) = somes (upd_last f' l).
Proof.
  intros H. unfold somes. induction l as [|a l IH]; [reflexivity|]. destruct l as [|b l].
  - simpl. rewrite H. reflexivity.
  - change (upd_last f (map Some (a :: b :: l))) with (Some a :: upd_last f (map Some (b :: l))).
    rewrite IH. reflexivity.
Qed.

Theorem np_speed_finite : speed_finite (@Np.links_step_speed PR NumPR) (@Np.links_step_speed R NumR).
Proof.
  intros v vu r rd V lanes L tau eta kappa T qr de ld ph rc Hr Hk HL Hlan Htau Hrc Hlen Hrl.
  unfold Np.links_step_speed. cbv zeta. numPR.
  rewrite (pr_div_ok T tau) by lra.
  rewrite !vv_pr2, !sv_pr2. rewrite (vs_div _ L) by lra. rewrite !vv_pr2.
  cbn [pr2]. rewrite (pr_div_ok (eta * T) tau) by lra. rewrite !sv_pr2, vs_pr2, sv_pr2.
  assert (Hden : Forall (fun y => y <> 0) (sv Rmult L (vs Rplus r kappa))).
  { clear Hrl. unfold sv, vs. rewrite map_map. induction Hr as [|x l Hx Hl IH]; cbn [map]; [constructor|].
    constructor; [|exact IH]. apply Rgt_not_eq. apply Rmult_gt_0_compat; lra. }
  rewrite (vv_div _ _ Hden).
  rewrite !vv_pr2.
  assert (Hr0 : 0 <= vfirst r).
  { unfold vfirst. destruct r as [|x r']; [cbn [nth]; rewrite zeroR; lra|]. inversion Hr; subst. assumption. }
  assert (Hd1 : L * lanes * (vfirst r + kappa) <> 0).
  { apply Rgt_not_eq. apply Rmult_gt_0_compat; [apply Rmult_gt_0_compat; lra|lra]. }
  destruct qr as [q|], de as [d|]; cbn [option_map];
    try (erewrite upd_first_somes;
         [|intros x; rewrite !vfirst_somes; cbn [pr2]; rewrite (pr_div_ok _ _ Hd1); reflexivity]);
    destruct ld as [l_|], ph as [p_|], rc as [c_|]; cbn [option_map]; try reflexivity;
    (erewrite upd_last_somes;
     [reflexivity|intros x; rewrite !vlast_somes; cbn [pr2 pr1]; rewrite pr_div_ok; [reflexivity|];
                  specialize (Hrc c_ eq_refl); apply Rgt_not_eq;
                  apply Rmult_gt_0_compat; [apply Rmult_gt_0_compat; lra|lra]]).
Qed.

(* ---- the CasADi-derived definitions: the same functions at every numeric structure ---- *)
Theorem cs_flow_finite : flow_finite (@Cs.links_get_flow PR NumPR) (@Cs.links_get_flow R NumR).
Proof. intros rho v lam. rewrite <- !eq_links_get_flow. apply np_flow_finite. Qed.
Theorem cs_density_finite : density_finite (@Cs.links_step_density PR NumPR) (@Cs.links_step_density R NumR).
Proof. intros rho q qu lam L T. rewrite <- !eq_links_step_density. apply np_density_finite. Qed.
Theorem cs_Veq_finite : Veq_finite (@Cs.links_Veq PR NumPR) (@Cs.links_Veq R NumR).
Proof. intros rho vf rc a. rewrite <- !eq_links_Veq. apply np_Veq_finite. Qed.
Theorem cs_speed_finite : speed_finite (@Cs.links_step_speed PR NumPR) (@Cs.links_step_speed R NumR).
Proof.
  intros v vu r rd V lanes L tau eta kappa T qr de ld ph rc. rewrite <- !eq_links_step_speed. apply np_speed_finite.
Qed.
