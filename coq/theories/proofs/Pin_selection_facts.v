From Coq Require Import List String.
From SM.specs Require Import Pin_selection_spec.
From SM.gen Require Import Pin_selection.

Lemma pin_selection_expected : selection_source_as_modelled pin_selection.
Proof. reflexivity. Qed.
