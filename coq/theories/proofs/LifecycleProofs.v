From Coq Require Import List Arith Bool Lia.
From SM Require Import Lifecycle.
From SM.specs Require Import C19_spec.
Import ListNotations.

Section P.
Variable n : lnet.

Lemma gens_of_In s els g : In g (gens_of s els) <-> exists e, In e els /\ vars (slots s e) = Some (Some g).
Proof.
  unfold gens_of. rewrite in_flat_map. split.
  - intros (e & He & Hg). exists e. split; [exact He|]. destruct (vars (slots s e)) as [[g'|]|]; simpl in Hg;
      try contradiction. destruct Hg as [<-|[]]. reflexivity.
  - intros (e & He & Hv). exists e. split; [exact He|]. rewrite Hv. left. reflexivity.
Qed.

Theorem compile_only_when_ready_proof : compile_only_when_ready n.
Proof.
  intros s. unfold lstep. destruct (ready n s) eqn:R; [|right; reflexivity].
  destruct (closed n s) eqn:C; [|right; reflexivity]. left. eexists. split; [reflexivity|].
  unfold ready in R. rewrite forallb_forall in R. unfold closed in C. rewrite forallb_forall in C.
  split; [|split; [|split; [|reflexivity]]].
  - intros e He Hd. specialize (R e He). apply andb_true_iff in R. destruct R as [R _]. rewrite Hd in R. exact R.
  - intros e He Hd. specialize (R e He). apply andb_true_iff in R. destruct R as [_ R]. rewrite Hd in R. simpl in R.
    destruct (next (slots s e)) as [gs|]; [exists gs; reflexivity|discriminate].
  - intros e gs g He Hd Hn Hg.
    assert (Hin : In g (outputs_read n s)).
    { unfold outputs_read. apply in_flat_map. exists e. split; [apply filter_In; auto|]. rewrite Hn. exact Hg. }
    specialize (C g Hin). apply existsb_exists in C. destruct C as (g' & Hg' & E). apply Nat.eqb_eq in E. subst g'.
    unfold inputs_of in Hg'. apply gens_of_In in Hg'. destruct Hg' as (e' & He' & Hv). apply filter_In in He'.
    exists e'. tauto.
Qed.

Lemma upd_same {T} (f : nat -> T) k v : upd f k v k = v.
Proof. unfold upd. rewrite Nat.eqb_refl. reflexivity. Qed.
Lemma upd_other {T} (f : nat -> T) k v x : x <> k -> upd f k v x = f x.
Proof. intros H. unfold upd. destruct (Nat.eqb_spec x k); [contradiction|reflexivity]. Qed.

Theorem init_resets_next_proof : init_resets_next n.
Proof.
  intros s e k. simpl. destruct k; simpl; rewrite upd_same; split; try reflexivity;
    intros e' H; apply upd_other; exact H.
Qed.

Theorem step_records_current_proof : step_records_current n.
Proof. intros s e _ _. unfold step_one. simpl. rewrite upd_same. split; reflexivity. Qed.

(* ---- freshness of generations ---- *)
Lemma fresh_init s e k : gens_fresh s -> gens_fresh (init_one s e k).
Proof.
  intros [H1 H2]. destruct k; split; simpl.
  - intros e' g. unfold upd. destruct (Nat.eqb e' e); simpl.
    + intros E. inversion E. lia.
    + intros E. specialize (H1 e' g E). lia.
  - intros e' gs g. unfold upd. destruct (Nat.eqb e' e); simpl; [discriminate|].
    intros E Hg. specialize (H2 e' gs g E Hg). lia.
  - intros e' g. unfold upd. destruct (Nat.eqb e' e); simpl; [discriminate|apply H1].
  - intros e' gs g. unfold upd. destruct (Nat.eqb e' e); simpl; [discriminate|apply H2].
Qed.
Lemma fresh_step s e : gens_fresh s -> gens_fresh (step_one n s e).
Proof.
  intros [H1 H2]. split; simpl.
  - intros e' g. unfold upd. destruct (Nat.eqb e' e) eqn:E; simpl; [|apply H1].
    apply Nat.eqb_eq in E. subst. apply H1.
  - intros e' gs g. unfold upd. destruct (Nat.eqb e' e); simpl; [|apply H2].
    intros E Hg. inversion E; subst. change (In g (gens_of s (e :: reads n s e))) in Hg.
    apply gens_of_In in Hg. destruct Hg as (x & _ & Hv). apply (H1 x g Hv).
Qed.
Lemma fresh_fold_init s l k : gens_fresh s -> gens_fresh (fold_left (fun s e => init_one s e k) l s).
Proof. revert s. induction l as [|e l IH]; intros s H; [exact H|]. simpl. apply IH. apply fresh_init. exact H. Qed.
Lemma fresh_fold_step s l :
  gens_fresh s -> gens_fresh (fold_left (fun s e => if declares_states n e then step_one n s e else s) l s).
Proof.
  revert s. induction l as [|e l IH]; intros s H; [exact H|]. simpl. apply IH.
  destruct (declares_states n e); [apply fresh_step|]; exact H.
Qed.

Lemma fresh_lstep s op : gens_fresh s -> gens_fresh (fst (lstep n s op)).
Proof.
  intros H. destruct op; simpl.
  - apply fresh_init. exact H.
  - apply fresh_fold_step. apply fresh_fold_init. exact H.
  - destruct (negb (declares_states n e)); [exact H|]. destruct (negb (initialised s e)); [exact H|].
    destruct (forallb _ _); [apply fresh_step|]; exact H.
  - exact H.
  - exact H.
  - destruct (ready n s); [destruct (closed n s)|]; exact H.
Qed.

Theorem generations_never_reused_proof : generations_never_reused n.
Proof.
  intros ops.
  assert (H : forall s, gens_fresh s -> gens_fresh (fst (lrun n s ops))).
  { induction ops as [|op ops IH]; intros s Hs; [exact Hs|]. simpl.
    destruct (lstep n s op) as [s1 r] eqn:E. specialize (IH s1).
    destruct (lrun n s1 ops) as [s2 rs] eqn:E2. simpl. apply IH.
    pose proof (fresh_lstep s op Hs) as Hf. rewrite E in Hf. exact Hf. }
  apply H. split; simpl; intros; discriminate.
Qed.
End P.
