(* C18 — neutral controls reproduce the uncontrolled model; limits never raise speeds.
   neutral_controls (specs/C18_spec.v), on the primitives regenerated from both engines:
   limits at or above the equilibrium speed on every limited segment (in particular infinite
   ones), or no limited segment => the controlled equilibrium speed IS the plain one; any limit
   only lowers it and leaves unlisted segments untouched; the speed update is monotone in the
   equilibrium speed (T/tau >= 0) so no next speed is raised; at metering rate one the two ramp
   laws coincide; a limited simplified ramp whose desired flow does not bind equals the metered
   ramp at rate one; a mainstream origin whose limit is at or above its first-segment speed is
   limited by that speed only.  Link level (Blocks.v): a plain link is link_raw_V with e_Veq; a
   speed-limited link with neutral limits returns exactly that; with any limits it returns the
   same densities and no larger speed. *)
From Coq Require Import Reals List.
From SM Require Import Num NumR Engine.
From SM.gen Require Import EnginesNp EnginesCs.
From SM.specs Require Import C18_spec.
From SM.proofs Require Import Neutral.

Theorem C18_neutral_controls_numpy :
  neutral_controls (@Np.links_Veq R NumR) (@Np.links_controlled_Veq R NumR) (@Np.links_step_speed R NumR)
                   (@Np.origins_get_ramp_flow R NumR) (@Np.origins_get_simplifiedramp_flow R NumR)
                   (@Np.origins_get_mainstream_flow R NumR).
Proof. exact np_neutral_controls. Qed.
Print Assumptions C18_neutral_controls_numpy.
Theorem C18_neutral_controls_casadi :
  neutral_controls (@Cs.links_Veq R NumR) (@Cs.links_controlled_Veq R NumR) (@Cs.links_step_speed R NumR)
                   (@Cs.origins_get_ramp_flow R NumR) (@Cs.origins_get_simplifiedramp_flow R NumR)
                   (@Cs.origins_get_mainstream_flow R NumR).
Proof. exact cs_neutral_controls. Qed.
Print Assumptions C18_neutral_controls_casadi.
Theorem C18_plain_link_numpy : plain_link_uses_Veq (@np_engine R NumR).
Proof. exact np_plain_link. Qed.
Print Assumptions C18_plain_link_numpy.
Theorem C18_plain_link_casadi : plain_link_uses_Veq (@cs_engine R NumR).
Proof. exact cs_plain_link. Qed.
Print Assumptions C18_plain_link_casadi.
Theorem C18_neutral_link_numpy : neutral_link_steps_like_plain (@np_engine R NumR).
Proof. exact np_neutral_link. Qed.
Print Assumptions C18_neutral_link_numpy.
Theorem C18_neutral_link_casadi : neutral_link_steps_like_plain (@cs_engine R NumR).
Proof. exact cs_neutral_link. Qed.
Print Assumptions C18_neutral_link_casadi.
Theorem C18_limited_never_faster_numpy : limited_link_never_faster (@np_engine R NumR).
Proof. exact np_limited_never_faster. Qed.
Print Assumptions C18_limited_never_faster_numpy.
Theorem C18_limited_never_faster_casadi : limited_link_never_faster (@cs_engine R NumR).
Proof. exact cs_limited_never_faster. Qed.
Print Assumptions C18_limited_never_faster_casadi.
