(* Pin_cache.v - pinned source text (nothing else here) *)
From SM.specs Require Import Pin_cache_spec.
From SM.gen Require Import Pin_cache.
From SM.proofs Require Import Pin_cache_facts.

Theorem cache_source_is_the_text_the_model_was_written_from : cache_source_as_modelled pin_cache.
Proof. exact pin_cache_expected. Qed.
Print Assumptions cache_source_is_the_text_the_model_was_written_from.
