(* props/ValidGen.v — the validation model is the regenerated code (T10, translator/validity.py).
   Network.is_valid is executed symbolically from its AST on every run (gen/ValidGen.v: the four passes in
   the code's order, every condition, threshold and message as the source has them, the counting dictionary
   of pass (1), isinstance resolved over the class hierarchy of blocks/origins.py); the hand-written model
   Validity.v - which C06's theorems are about and whose `validb` is the hypothesis "valid network" of
   C01-C05, C07, C10, C11, C14 - returns exactly that message list for every universe and every graph. *)
From Coq Require Import List.
From SM.specs Require Import ValidGen_spec.
From SM.proofs Require Import ValidGenTie.

Theorem validity_model_is_the_regenerated_code : validity_model_is_the_regenerated_code.
Proof. exact validity_model_is_the_regenerated_code_proof. Qed.
Print Assumptions validity_model_is_the_regenerated_code.
Theorem validb_is_the_regenerated_verdict : validb_is_the_regenerated_verdict.
Proof. exact validb_is_the_regenerated_verdict_proof. Qed.
Print Assumptions validb_is_the_regenerated_verdict.
Theorem regenerated_code_has_four_passes : regenerated_code_has_four_passes.
Proof. exact regenerated_code_has_four_passes_proof. Qed.
Print Assumptions regenerated_code_has_four_passes.
