(* C15 — both engines compute the same value for every model primitive.
   The statements are about the definitions REGENERATED from engines/numpy.py and
   engines/casadi.py on every run.  Values are stated over the reals (NumR); the
   same equalities over the partial reals (NumPR: None = nan/inf born from finite
   input) give "defined on one engine iff defined on the other, with equal value";
   definedness itself on the admissible domain (incl. zero speed) is C15_fin_*. *)
From Coq Require Import Reals List String.
From SM Require Import Num NumR NumPR.
From SM.gen Require Import EnginesNp EnginesCs.
From SM.specs Require Import C15_spec.
From SM.proofs Require Import EnginesEq.


(* every primitive, every variant, scalar or vector arguments of any length: same real value *)
Theorem C15_same_value_R : @engines_agree R NumR.
Proof. exact (@engines_agree_all R NumR). Qed.
Print Assumptions C15_same_value_R.

(* same definedness and same value on the partial reals (nan/inf tracked as None) *)
Theorem C15_same_value_PR : @engines_agree PR NumPR.
Proof. exact (@engines_agree_all PR NumPR). Qed.
Print Assumptions C15_same_value_PR.
