(* C15 — both engines compute the same value for every model primitive.
   The statements are about the definitions REGENERATED from engines/numpy.py and
   engines/casadi.py on every run.  Values are stated over the reals (NumR); the
   same equalities over the partial reals (NumPR: None = nan/inf born from finite
   input) give "defined on one engine iff defined on the other, with equal value";
   definedness itself on the admissible domain (incl. zero speed) is C15_fin_*. *)
From Coq Require Import Reals List String.
From SM Require Import Num NumR NumPR.
From SM.gen Require Import EnginesNp EnginesCs.
From SM.specs Require Import C15_spec C15fin_spec.
From SM.proofs Require Import EnginesEq EnginesFin.


(* every primitive, every variant, scalar or vector arguments of any length: same real value *)
Theorem C15_same_value_R : @engines_agree R NumR.
Proof. exact (@engines_agree_all R NumR). Qed.
Print Assumptions C15_same_value_R.

(* same definedness and same value on the partial reals (nan/inf tracked as None) *)
Theorem C15_same_value_PR : @engines_agree PR NumPR.
Proof. exact (@engines_agree_all PR NumPR). Qed.
Print Assumptions C15_same_value_PR.

(* finiteness: on admissible arguments including exact zeros of density and speed, the link laws of
   both engines are defined over the partial reals and equal their value over the reals (the origin
   laws, incl. the zero-speed guard of the mainstream origin, are the C07 mainstream_defined and
   ramp_defined theorems) *)
Theorem C15_flow_finite_numpy : C15fin_spec.flow_finite (@Np.links_get_flow PR NumPR) (@Np.links_get_flow R NumR).
Proof. exact np_flow_finite. Qed.
Print Assumptions C15_flow_finite_numpy.
Theorem C15_flow_finite_casadi : C15fin_spec.flow_finite (@Cs.links_get_flow PR NumPR) (@Cs.links_get_flow R NumR).
Proof. exact cs_flow_finite. Qed.
Print Assumptions C15_flow_finite_casadi.
Theorem C15_density_finite_numpy : C15fin_spec.density_finite (@Np.links_step_density PR NumPR) (@Np.links_step_density R NumR).
Proof. exact np_density_finite. Qed.
Print Assumptions C15_density_finite_numpy.
Theorem C15_density_finite_casadi : C15fin_spec.density_finite (@Cs.links_step_density PR NumPR) (@Cs.links_step_density R NumR).
Proof. exact cs_density_finite. Qed.
Print Assumptions C15_density_finite_casadi.
Theorem C15_Veq_finite_numpy : C15fin_spec.Veq_finite (@Np.links_Veq PR NumPR) (@Np.links_Veq R NumR).
Proof. exact np_Veq_finite. Qed.
Print Assumptions C15_Veq_finite_numpy.
Theorem C15_Veq_finite_casadi : C15fin_spec.Veq_finite (@Cs.links_Veq PR NumPR) (@Cs.links_Veq R NumR).
Proof. exact cs_Veq_finite. Qed.
Print Assumptions C15_Veq_finite_casadi.
Theorem C15_speed_finite_numpy : C15fin_spec.speed_finite (@Np.links_step_speed PR NumPR) (@Np.links_step_speed R NumR).
Proof. exact np_speed_finite. Qed.
Print Assumptions C15_speed_finite_numpy.
Theorem C15_speed_finite_casadi : C15fin_spec.speed_finite (@Cs.links_step_speed PR NumPR) (@Cs.links_step_speed R NumR).
Proof. exact cs_speed_finite. Qed.
Print Assumptions C15_speed_finite_casadi.
