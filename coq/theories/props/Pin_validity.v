(* Pin_validity.v - pinned source text (nothing else here) *)
From SM.specs Require Import Pin_validity_spec.
From SM.gen Require Import Pin_validity.
From SM.proofs Require Import Pin_validity_facts.

Theorem validity_source_is_the_text_the_model_was_written_from : validity_source_as_modelled pin_validity.
Proof. exact pin_validity_expected. Qed.
Print Assumptions validity_source_is_the_text_the_model_was_written_from.
