(* C13 — the selected engine is the default; an explicit engine is always honoured.
   On EngineSel.v (hand-written model of use / get_current_engine / the module-level selection,
   tied on every run by selection histories with recording engines):
   use_selects: use(name) of an available name instantiates that class, use(instance) takes the
     instance; either becomes the engine returned by get_current_engine;
   unknown_refused: anything else gives the engine-not-found error and leaves the selection alone;
   step_keeps_selection: a step never writes the selection, and without an explicit engine the
     selected one is used;
   forwarding_sound + C13_all_call_sites_forward: on the call graph REGENERATED from blocks/*.py and
     network.py on this run (every call of an engine-taking method inside a function that holds an
     engine), every call site passes its local engine on, hence along every call chain from
     Network.step(engine=e) the callee - and so every primitive - sees e, whatever is selected
     (explicit_engine_honoured).  The translator also fails closed on any rebinding of `engine`, any
     get_current_engine() outside the `if engine is None` guard and any use(...) / sym_metanet.engine
     access in those files. *)
From Coq Require Import List String Bool.
From SM Require Import EngineSel.
From SM.gen Require Import Tables.
From SM.specs Require Import C13_spec.
From SM.proofs Require Import Selection.

Theorem C13_use_selects : forall fw, use_selects fw.
Proof. exact use_selects_proof. Qed.
Print Assumptions C13_use_selects.
Theorem C13_unknown_refused : forall fw, unknown_refused fw.
Proof. exact unknown_refused_proof. Qed.
Print Assumptions C13_unknown_refused.
Theorem C13_step_keeps_selection : forall fw, step_keeps_selection fw.
Proof. exact step_keeps_selection_proof. Qed.
Print Assumptions C13_step_keeps_selection.
Theorem C13_forwarding_sound : forwarding_sound.
Proof. exact forwarding_sound_proof. Qed.
Print Assumptions C13_forwarding_sound.
Theorem C13_all_call_sites_forward : all_fwd gen_calls = true.
Proof. vm_compute. reflexivity. Qed.
Print Assumptions C13_all_call_sites_forward.
Theorem C13_explicit_engine_honoured : explicit_engine_honoured.
Proof. exact explicit_engine_honoured_proof. Qed.
Print Assumptions C13_explicit_engine_honoured.
