(* C06 — validation accepts a network exactly when the nine documented conditions hold.
   On Validity.v (hand-written model of Network.is_valid: the four passes in the code's order,
   incl. the iteration over the origins / destinations DICTS, where a shared object keeps only its
   last node; tied on every run by the validity correspondence: verdict, "raises", message kinds
   on exhaustive small graphs and random graphs):
   validation_is_nine_conditions: validb = true iff the nine conditions of specs/C06_spec.v hold
     (declarative statements per node on the graph, no dictionaries);
   verdict_consistent: raises=True raises exactly when the verdict is invalid, an invalid verdict
     comes with at least one message, and the raised message is the first message. *)
From Coq Require Import List.
From SM.specs Require Import C06_spec.
From SM.proofs Require Import ValidSpecProof.

Theorem C06_validation_is_nine_conditions : validation_is_nine_conditions.
Proof. exact validation_is_nine_conditions_proof. Qed.
Print Assumptions C06_validation_is_nine_conditions.
Theorem C06_verdict_consistent : verdict_consistent.
Proof. exact verdict_consistent_proof. Qed.
Print Assumptions C06_verdict_consistent.

(* Network.is_valid as read off network.py on every run (translator/facts.py): nine reporting sites, each followed by
   the raise under `raises`, no other raise, verdict = `not msgs` *)
From SM.specs Require Import SourceFacts_spec.
From SM.proofs Require Import SourceFactsValid.
Theorem C06_validation_reports_and_raises_together : validation_reports_and_raises_together.
Proof. exact validation_reports_and_raises_together_proof. Qed.
Print Assumptions C06_validation_reports_and_raises_together.
