(* C12 — stepping is a pure, repeatable function of the supplied values.  PARTIAL (see below).
   (a) on Lifecycle.v: step_forgets_history / step_shape_forgets_history - Network.step
       re-initialises every member and recomputes every next state: after it, the variable slots of
       the members do not depend on anything that was initialised, stepped or compiled before
       (with numbers: equal slots; with engine symbols: equal up to the numbering of the fresh
       symbols).  Element parameters are not part of any slot the model writes.
   (b) no_inplace_write_on_caller_data: in the list, REGENERATED on this run from
       engines/numpy.py, blocks/*.py and network.py, of every in-place statement (augmented
       assignment, store into a subscript, del of a subscript), every target is a value the function
       created itself or one of the element's own variable dictionaries; none may alias caller data.
   Partial: which expressions allocate (NumPy functions, arithmetic, constant-index elements) is the
   translator's classification rule - trusted, not verified; purity of the real runs (caller arrays
   write-protected and hashed, dictionaries and element parameters snapshotted, repeated steps
   compared bit for bit after unrelated steps, compilations, engines and options) is the dynamic half. *)
From Coq Require Import List.
From SM Require Import Lifecycle.
From SM.specs Require Import C12_spec.
From SM.proofs Require Import Purity.

Theorem C12_step_forgets_history : forall n, step_forgets_history n.
Proof. exact step_forgets_history_proof. Qed.
Print Assumptions C12_step_forgets_history.
Theorem C12_step_shape_forgets_history : forall n, step_shape_forgets_history n.
Proof. exact step_shape_forgets_history_proof. Qed.
Print Assumptions C12_step_shape_forgets_history.
Theorem C12_no_inplace_write_on_caller_data : no_inplace_write_on_caller_data.
Proof. exact no_inplace_write_on_caller_data_proof. Qed.
Print Assumptions C12_no_inplace_write_on_caller_data.
