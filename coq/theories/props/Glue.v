(* Glue.v - the tie of the hand-written element-layer model to the Python glue, as theorems (nothing else here) *)
From SM.specs Require Import Glue_spec.
From SM.proofs Require Import BlocksTie.

Theorem element_layer_model_is_the_regenerated_glue : element_layer_is_the_regenerated_glue.
Proof. exact glue_tie. Qed.
Print Assumptions element_layer_model_is_the_regenerated_glue.

Theorem regenerated_glue_yields_the_model_value : regenerated_glue_gives_the_model_value.
Proof. exact glue_value. Qed.
Print Assumptions regenerated_glue_yields_the_model_value.

Theorem element_level_parameter_defaults_as_documented : element_level_defaults_as_documented.
Proof. exact defaults_tie. Qed.
Print Assumptions element_level_parameter_defaults_as_documented.

