(* props/ConstructGen.v — the construction model is the regenerated code (T11, translator/construct.py).
   The seven construction calls of Network are executed symbolically from their AST on every run
   (gen/ConstructGen.v: which networkx primitive each call makes, with which arguments, the guard
   `node not in self.nodes`, the attribute keys, the unpacking of add_links' triples, and add_path's type tests,
   call order, loop state, `L == 2`, `current_link[-1:]`, the variable the loop leaves behind); the hand-written
   model Construct.v - which C08's and C09's theorems are about - has exactly that effect and that error for every
   graph and all arguments. *)
From Coq Require Import List.
From SM.specs Require Import ConstructGen_spec.
From SM.proofs Require Import ConstructGenTie.

Theorem construction_model_is_the_regenerated_code : construction_model_is_the_regenerated_code.
Proof. exact construction_model_is_the_regenerated_code_proof. Qed.
Print Assumptions construction_model_is_the_regenerated_code.
Theorem regenerated_add_path_never_reads_an_unbound_variable : regenerated_add_path_never_reads_an_unbound_variable.
Proof. exact regenerated_add_path_never_reads_an_unbound_variable_proof. Qed.
Print Assumptions regenerated_add_path_never_reads_an_unbound_variable.
