(* C09 — construction calls build exactly the described graph; malformed paths are rejected.
   On Construct.v (hand-written model of network.py:176-382 on a networkx.DiGraph whose nodes may
   be ANY object; tied on every run by the history correspondence: exception class, node objects,
   edges and attachments after every call, incl. a stream of malformed paths):
   prim_spec: the effect of add_node / add_origin / add_destination / add_link on the abstract
     view (set of node objects; partial maps edge -> link, node -> origin, node -> destination):
     exactly the stated element is added / attached, a later attachment replaces the earlier one
     on the same node or edge, nothing else changes;
   path_spec: add_path raises no error iff the path is node (link node)+ (so paths that do not
     start or end with a node, do not alternate, or consist of a single node are rejected), and it
     is by definition (expand_path) the documented sequence of the calls above, cut at the error;
   construction_invariant: after any typed history - path items arbitrary - every node of the
     graph is a Node object, every edge carries a Link object, node objects and edges are unique and
     edge ends are nodes;  reachable_wf_graph: hence the graph of Graph.v it denotes is well formed
     (the hypothesis of C01, C02, C06, C14). *)
From Coq Require Import List.
From SM Require Import Construct.
From SM.specs Require Import C09_spec GraphWF.
From SM.proofs Require Import Construction.

Theorem C09_prim_spec : prim_spec.
Proof. exact prim_spec_proof. Qed.
Print Assumptions C09_prim_spec.
Theorem C09_path_spec : path_spec.
Proof. exact path_spec_proof. Qed.
Print Assumptions C09_path_spec.
Theorem C09_construction_invariant : construction_invariant.
Proof. exact construction_invariant_proof. Qed.
Print Assumptions C09_construction_invariant.
Theorem C09_reachable_wf_graph : forall ops, Forall typed_op ops -> wf_graph (to_graph (run_ops ops)).
Proof. exact reachable_wf_graph. Qed.
Print Assumptions C09_reachable_wf_graph.
