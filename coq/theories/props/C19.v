(* C19 — a function is only produced for a fully initialised and stepped network.
   On Lifecycle.v (hand-written model of the variable slots across init_vars / Network.step /
   element.step / construction calls / to_function with its readiness scan and CasADi's
   free-symbol rule; symbols tracked by generation; tied on every run by lifecycle histories on SX
   and MX: outcome class and argument elements after every operation):
   compile_only_when_ready: to_function either raises the runtime error or returns a function, and
     then every member with states/actions/disturbances is initialised, every member with states
     has next states, and every symbol a next state reads is the current symbol of a member (no free
     symbol; nothing re-initialised, removed or added-uninitialised since);
   init_resets_next: initialising an element discards its next states, so "has next states" means
     "stepped after its last initialisation" - elements added or re-initialised after the last step
     block compilation;  step_records_current: a step records the generations it read;
   generations_never_reused: for every history, every generation in use is older than the counter,
     so a re-initialised element never regains symbols an old next state mentions. *)
From Coq Require Import List.
From SM Require Import Lifecycle.
From SM.specs Require Import C19_spec SourceFacts_spec.
From SM.proofs Require Import LifecycleProofs SourceFactsLife SourceFactsStepOverwrites SourceFactsReady.

Theorem C19_compile_only_when_ready : forall n, compile_only_when_ready n.
Proof. exact compile_only_when_ready_proof. Qed.
Print Assumptions C19_compile_only_when_ready.
Theorem C19_init_resets_next : forall n, init_resets_next n.
Proof. exact init_resets_next_proof. Qed.
Print Assumptions C19_init_resets_next.
Theorem C19_step_records_current : forall n, step_records_current n.
Proof. exact step_records_current_proof. Qed.
Print Assumptions C19_step_records_current.
Theorem C19_generations_never_reused : forall n, generations_never_reused n.
Proof. exact generations_never_reused_proof. Qed.
Print Assumptions C19_generations_never_reused.

(* the two steps of Lifecycle.v that carry the property, read off the source on every run (translator/facts.py):
   init_vars of every element class with states resets next_states (own statement or unconditional super()),
   and ElementWithVars.step overwrites the next state of every state name unconditionally *)
Theorem C19_init_resets_in_source : init_resets_in_source.
Proof. exact init_resets_in_source_proof. Qed.
Print Assumptions C19_init_resets_in_source.
Theorem C19_step_overwrites_in_source : step_overwrites_in_source.
Proof. exact step_overwrites_in_source_proof. Qed.
Print Assumptions C19_step_overwrites_in_source.
Theorem C19_readiness_scan_as_modelled : readiness_scan_as_modelled.
Proof. exact readiness_scan_as_modelled_proof. Qed.
Print Assumptions C19_readiness_scan_as_modelled.
