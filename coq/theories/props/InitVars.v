(* InitVars.v - the facts about init_vars the models rest on, as theorems about the table regenerated from blocks/*.py *)
From SM.specs Require Import InitVars_spec.
From SM.gen Require Import InitVars.
From SM.proofs Require Import InitVarsFacts.

Theorem init_vars_effects_as_modelled : init_vars_as_modelled init_effects.
Proof. exact init_effects_expected. Qed.
Print Assumptions init_vars_effects_as_modelled.

Theorem init_vars_looks_up_each_variable_under_its_own_name : every_variable_under_its_own_name init_effects.
Proof. exact own_names. Qed.
Print Assumptions init_vars_looks_up_each_variable_under_its_own_name.

Theorem init_vars_clamps_are_the_documented_ones : clamps_are_the_documented_ones init_effects.
Proof. exact clamps_documented. Qed.
Print Assumptions init_vars_clamps_are_the_documented_ones.

Theorem init_vars_drops_next_states_before_clamping : states_bound_means_next_dropped init_effects.
Proof. exact next_dropped. Qed.
Print Assumptions init_vars_drops_next_states_before_clamping.

Theorem init_vars_leaves_the_documented_control_inputs : control_inputs_as_documented init_effects.
Proof. exact actions_documented. Qed.
Print Assumptions init_vars_leaves_the_documented_control_inputs.
