(* Pin_stepping.v - pinned source text (nothing else here) *)
From SM.specs Require Import Pin_stepping_spec.
From SM.gen Require Import Pin_stepping.
From SM.proofs Require Import Pin_stepping_facts.

Theorem stepping_source_is_the_text_the_model_was_written_from : stepping_source_as_modelled pin_stepping.
Proof. exact pin_stepping_expected. Qed.
Print Assumptions stepping_source_is_the_text_the_model_was_written_from.
