(* C05 — the extra flow outputs are the flows the state update actually used.
   For every numeric structure and both regenerated engines:
   link_flow_is_rho_v_lanes: each reported link flow entry is rho x v x lanes of the input segment;
   origin_flow_is_used_by_queue: the reported origin flow q is the value the queue update consumes
     (next queue = queue law (w, d, q, T), clamped only if requested);
   origin_flow_is_used_by_node: and the value the node adds to the inflow of the link it feeds, in
     each of the three in-degree cases (C02 proves the resulting balance);
   flows_from_step_state: the flows are recomputed from the same init-clamped symbols the step
     used, listed in link order then origin order.  All compactness levels share these entries
     (ToFunction.flow_outputs concatenates them). *)
From Coq Require Import List.
From SM Require Import Num Engine Expr.
From SM.specs Require Import C05_spec.
From SM.proofs Require Import Flows.

Theorem C05_link_flow_numpy : forall A (NA : Num A), link_flow_is_rho_v_lanes (@np_engine A NA).
Proof. intros. apply np_link_flow. Qed.
Print Assumptions C05_link_flow_numpy.
Theorem C05_link_flow_casadi : forall A (NA : Num A), link_flow_is_rho_v_lanes (@cs_engine A NA).
Proof. intros. apply cs_link_flow. Qed.
Print Assumptions C05_link_flow_casadi.
Theorem C05_origin_flow_used_by_queue : forall A (NA : Num A) (E : engine A), origin_flow_is_used_by_queue E.
Proof. intros. apply used_by_queue. Qed.
Print Assumptions C05_origin_flow_used_by_queue.
Theorem C05_origin_flow_used_by_node : forall A (NA : Num A) (E : engine A), origin_flow_is_used_by_node E.
Proof. intros. apply used_by_node. Qed.
Print Assumptions C05_origin_flow_used_by_node.
Theorem C05_flows_from_step_state : forall E : engine expr, flows_from_step_state E.
Proof. exact flows_same_state. Qed.
Print Assumptions C05_flows_from_step_state.
