(* C10 — each next state depends only on its own segment and its model neighbours.
   locality (specs/C10_spec.v): for ANY graph, any two states agreeing on
   nb_rho e i  (own segment; the segment upstream, or for the first segment the last segments of
                the links entering the upstream node and that node's origin data)
   nb_v e i    (own segment; upstream speed data; the density immediately downstream: next
                segment, or first segments of the leaving links, or the destination's scenario;
                the segment's own speed limit)
   origin_eq   (own queue, demand, control and the first segment of its link)
   prescribe the same next density / speed / queue; the values are the ones C01 proves the
   implementation model to compute.  Nothing else in the network is constrained. *)
From Coq Require Import Reals List.
From SM Require Import Num NumR.
From SM.specs Require Import C10_spec.
From SM Require Import Engine.
From SM.proofs Require Import Locality ModelCorollaries StepSpec.

Theorem C10_locality : forall U P g st st', locality U P g st st'.
Proof. exact locality_proof. Qed.
Print Assumptions C10_locality.

(* on the model: two steps of a valid network from states agreeing on a segment's neighbourhood return the same
   value for it (regenerated engines) *)
Theorem C10_model_locality_numpy : model_locality (@np_engine R NumR).
Proof. exact (model_locality_proof _ np_step_is_METANET). Qed.
Print Assumptions C10_model_locality_numpy.
Theorem C10_model_locality_casadi : model_locality (@cs_engine R NumR).
Proof. exact (model_locality_proof _ cs_step_is_METANET). Qed.
Print Assumptions C10_model_locality_casadi.
