(* C03 — the compiled CasADi function computes the same step as the NumPy engine.
   compiled_is_numpy_step (specs/C03_spec.v): for EVERY network (accepted by validation or not:
   Python failure points agree as error values too), option set, naming, compactness level and
   numeric argument assignment env, the state results of the ToFunction model over the
   CasADi-derived engine, evaluated at env, are the (regrouped) results of network_step over the
   NumPy-derived engine from the same numbers.  Proof: eval_step (the Paramcoq abstraction theorem
   of the polymorphic model instantiated with "the tree denotes the real") + C15 (the two
   regenerated engines are equal).  The model has one symbolic type: that SX and MX agree is
   established by the dynamic runs (both compared with the NumPy step at every level). *)
From Coq Require Import Reals List.
From SM.specs Require Import C03_spec.
From SM.proofs Require Import Compiled.

Theorem C03_compiled_is_numpy_step : compiled_is_numpy_step.
Proof. exact compiled_is_numpy_step_proof. Qed.
Print Assumptions C03_compiled_is_numpy_step.
