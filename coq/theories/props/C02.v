(* C02 — vehicles are conserved by every step, network-wide and at every node.
   conservation (specs/C02_spec.v): for every well-formed graph accepted by the validation
   model, without clamping:
   - node_balance n: the flows entering the first segments of the links leaving n (the very
     values the density update uses, Spec.sinflow - by C01 the implementation model's q_up[0])
     sum to the last-segment flows of the links entering n plus the flow of n's origin;
   - network_balance: sum over all segments of (rho+ - rho) x lanes x L, plus the queue changes,
     equals T x (demand at queued origins + flow admitted by ideal origins - last-segment flows
     of the links entering destinations).
   No division by a possibly-zero total flow is involved; the side conditions are lanes x L <> 0
   and a non-zero turn-rate sum. *)
From Coq Require Import Reals List.
From SM.specs Require Import C02_spec.
From SM Require Import Num NumR Engine.
From SM.proofs Require Import Conservation ModelCorollaries StepSpec.

Theorem C02_conservation : conservation.
Proof. exact conservation_proof. Qed.
Print Assumptions C02_conservation.

(* on the model: the step of a valid network returns the values the balances are stated on (regenerated engines) *)
Theorem C02_model_conserves_numpy : model_conserves (@np_engine R NumR).
Proof. exact (model_conserves_proof _ np_step_is_METANET). Qed.
Print Assumptions C02_model_conserves_numpy.
Theorem C02_model_conserves_casadi : model_conserves (@cs_engine R NumR).
Proof. exact (model_conserves_proof _ cs_step_is_METANET). Qed.
Print Assumptions C02_model_conserves_casadi.
