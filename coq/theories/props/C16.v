(* C16 — symbolic model parameters behave like the numbers substituted for them.
   symbolic_parameters_are_values: two compilations whose parameter records evaluate alike under
   env (each parameter given as a symbol whose value env supplies, or as a constant) return the
   same numbers - link parameters (L, rho_max, rho_crit, v_free, a, turn rate, alpha), ramp
   capacities and model parameters (T, tau, eta, kappa, delta, phi) alike; by C03 both are the
   NumPy step with those values.  parameters_trail_in_order: declared parameters are appended
   after the state/action/disturbance arguments in declaration order (one stacked vector p at
   compactness >= 1). *)
From Coq Require Import Reals List.
From SM.specs Require Import C03_spec SourceFacts_spec.
From SM.proofs Require Import Compiled SourceFactsLevels.

Theorem C16_symbolic_parameters_are_values : symbolic_parameters_are_values.
Proof. exact symbolic_parameters_are_values_proof. Qed.
Print Assumptions C16_symbolic_parameters_are_values.
Theorem C16_parameters_trail_in_order : parameters_trail_in_order.
Proof. exact parameters_trail_in_order_proof. Qed.
Print Assumptions C16_parameters_trail_in_order.

(* the test on `compact` in _add_parameters_to_inputs (read off engines/casadi.py on every run): separate trailing
   arguments at every level <= 0, one stacked vector p at every level > 0 *)
Theorem C16_parameters_separate_iff_level_le_0 : parameters_separate_iff_level_le_0.
Proof. exact parameters_separate_iff_level_le_0_proof. Qed.
Print Assumptions C16_parameters_separate_iff_level_le_0.
