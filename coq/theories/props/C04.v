(* C04 — function arguments/results follow the network's element order at every level.
   Proved on ToFunction.v (hand-written model of Engine.to_function, tied on every run by the
   compile correspondence: names, sizes and numeric values of the real function against the
   model's printed arguments and result trees, SX and MX, levels 0/1/2):
   results_closed: every symbol occurring in any result is one of the arguments (nothing is left
     free) - the Paramcoq abstraction theorem instantiated with "all symbols of the tree are
     arguments";
   arguments_exact: at every level the arguments are exactly the declared state, action and
     disturbance symbols of the network's elements and the declared parameters;
   levels_are_regroupings: the results at the three levels are the per-element / per-variable-name
     / single-vector regroupings of one and the same step result.
   PARTIAL: the positional statement "result k is the successor of state argument k" is, in the
   model, the fact that tf_inputs and state_outputs enumerate the same (element, variable) labels
   in the same order (both are built from Network.elements and the key order of the state
   dictionaries); it is checked on the implementation by the dynamic runs (distinct-entry probe
   against the NumPy step through the documented layout) but not yet stated as a Coq theorem. *)
From Coq Require Import Reals List.
From SM.specs Require Import C04_spec.
From SM.proofs Require Import Layout.

Theorem C04_results_closed : results_closed.
Proof. exact results_closed_proof. Qed.
Print Assumptions C04_results_closed.
Theorem C04_arguments_exact : arguments_exact.
Proof. exact arguments_exact_proof. Qed.
Print Assumptions C04_arguments_exact.
Theorem C04_levels_are_regroupings : levels_are_regroupings.
Proof. exact levels_are_regroupings_proof. Qed.
Print Assumptions C04_levels_are_regroupings.
