(* C04 — function arguments/results follow the network's element order at every level.
   Proved on ToFunction.v (hand-written model of Engine.to_function, tied on every run by the
   compile correspondence: names, sizes and numeric values of the real function against the
   model's printed arguments and result trees, SX and MX, levels 0/1/2):
   results_closed: every symbol occurring in any result is one of the arguments (nothing is left
     free) - the Paramcoq abstraction theorem instantiated with "all symbols of the tree are
     arguments";
   arguments_exact: at every level the arguments are exactly the declared state, action and
     disturbance symbols of the network's elements and the declared parameters;
   levels_are_regroupings: the results at the three levels are the per-element / per-variable-name
     / single-vector regroupings of one and the same step result.
   positional_successor: the state arguments and the results carry the same (element, variable)
     labels with the same sizes in the same order (links in Network.links order with rho then v, then
     queued origins with w), at level 0; the same stable regrouping by variable name on both sides
     at level 1 (result names with a trailing "+"); one vector of equal size at level 2 - so result k
     is the successor of state argument k and can be fed back. *)
From Coq Require Import Reals List.
From SM.specs Require Import C04_spec SourceFacts_spec.
From SM.proofs Require Import Layout Positional SourceFactsLevels.

Theorem C04_results_closed : results_closed.
Proof. exact results_closed_proof. Qed.
Print Assumptions C04_results_closed.
Theorem C04_arguments_exact : arguments_exact.
Proof. exact arguments_exact_proof. Qed.
Print Assumptions C04_arguments_exact.
Theorem C04_levels_are_regroupings : levels_are_regroupings.
Proof. exact levels_are_regroupings_proof. Qed.
Print Assumptions C04_levels_are_regroupings.
Theorem C04_positional_successor : positional_successor.
Proof. exact positional_successor_proof. Qed.
Print Assumptions C04_positional_successor.

(* the compactness argument: every compile helper of engines/casadi.py (its tests on `compact` are read off the
   source on every run, translator/facts.py) puts EVERY integer into the documented class (<= 0, == 1, > 1), which
   is the level 0 | 1 | _ the model computes with *)
Theorem C04_helpers_use_documented_levels : helpers_use_documented_levels.
Proof. exact helpers_use_documented_levels_proof. Qed.
Print Assumptions C04_helpers_use_documented_levels.
Theorem C04_model_level_is_documented : model_level_is_documented.
Proof. exact model_level_is_documented_proof. Qed.
Print Assumptions C04_model_level_is_documented.
