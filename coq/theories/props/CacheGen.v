(* props/CacheGen.v — the cache-invalidation decorator is the regenerated code (T13, translator/cachegen.py).
   util/funcs.py::invalidate_cache is executed symbolically from its AST on every run (gen/CacheGen.v over
   PyCacheSupport.v: classification of the decorator's arguments, the closures for 0 / 1 / several cached properties and
   lru wrappers, the wrapper's guards and its order invalidation -> call); what Cache.v assumes of a decorated call -
   every cached look-up named in the decorator is dropped (whichever are populated), nothing else is touched, and the
   decorated function then runs on that cache and its value is returned - is what the regenerated wrapper does. *)
From Coq Require Import List.
From SM.specs Require Import CacheGen_spec.
From SM.proofs Require Import CacheGenTie.

Theorem decorated_call_drops_exactly_the_named_properties : decorated_call_drops_exactly_the_named_properties.
Proof. exact decorated_call_drops_exactly_the_named_properties_proof. Qed.
Print Assumptions decorated_call_drops_exactly_the_named_properties.
Theorem decorator_refuses_what_it_cannot_invalidate : decorator_refuses_what_it_cannot_invalidate.
Proof. exact decorator_refuses_what_it_cannot_invalidate_proof. Qed.
Print Assumptions decorator_refuses_what_it_cannot_invalidate.
