(* C11 — positivity options are exactly clamps at zero.  Proved for EVERY numeric structure
   (hence over the reals, the partial reals with nan tracking, and expression trees) and for
   both engines as regenerated from the source:
   - positive_init_*: the step equals the step without those options applied to the state in
     which exactly the named quantity is replaced by its element-wise max(0, .);
   - positive_next_*: the result equals the result without those options with exactly the named
     next quantity replaced by its element-wise max(0, .), error results unchanged;
   - all options off: every link result is the raw update (nothing clamped).
   "Each option affects only the quantity it names" is the shape of clamp_state / clamp_out. *)
From Coq Require Import List.
From SM Require Import Num Engine Blocks.
From SM.specs Require Import C11_spec.
From SM.proofs Require Import Clamps.

Theorem C11_init_numpy : forall A (NA : Num A), init_options_are_clamps (@np_engine A NA).
Proof. intros. apply init_clamps, np_max_is_nmax. Qed.
Print Assumptions C11_init_numpy.
Theorem C11_init_casadi : forall A (NA : Num A), init_options_are_clamps (@cs_engine A NA).
Proof. intros. apply init_clamps, cs_max_is_nmax. Qed.
Print Assumptions C11_init_casadi.
Theorem C11_next_numpy : forall A (NA : Num A), next_options_are_clamps (@np_engine A NA).
Proof. intros. apply next_clamps, np_max_is_nmax. Qed.
Print Assumptions C11_next_numpy.
Theorem C11_next_casadi : forall A (NA : Num A), next_options_are_clamps (@cs_engine A NA).
Proof. intros. apply next_clamps, cs_max_is_nmax. Qed.
Print Assumptions C11_next_casadi.
Theorem C11_all_off : forall A (NA : Num A) (E : engine A), all_off_is_raw E.
Proof. intros. apply all_off_raw. Qed.
Print Assumptions C11_all_off.

(* Network.step as the model has it (read off network.py on every run, translator/facts.py): the six options default
   to off, and the three phases hand on exactly the options the model applies in them *)
From SM.specs Require Import SourceFacts_spec.
From SM.proofs Require Import SourceFactsStep.
Theorem C11_options_default_off : options_default_off.
Proof. exact options_default_off_proof. Qed.
Print Assumptions C11_options_default_off.
Theorem C11_step_phases_as_modelled : step_phases_as_modelled.
Proof. exact step_phases_as_modelled_proof. Qed.
Print Assumptions C11_step_phases_as_modelled.
