(* C08 — name and membership look-ups always reflect the current network.
   never_stale (specs/C08_spec.v): for ANY invalidation table satisfying the finite condition
   table_ok (every look-up a decorated call can change is in that call's invalidation list) and ANY
   history - any interleaving of add_node(s), add_link(s), add_origin, add_destination, add_path
   (accepted or failing half-way, each of its internal calls invalidating on its own), replacements
   of links / origins / destinations, and reads of any look-up, with arbitrary (also colliding)
   element names - every look-up returns what is recomputed from the graph at that moment.
   By induction over the history; `affects` is proved sound for the construction model.
   C08_generated_table_ok: the table REGENERATED from the decorators of network.py on this run
   satisfies table_ok (the obligation a shortened decorator list breaks).
   Live views (links, in_links(node), out_links(node)) are not memoised values: the model
   recomputes them from the graph. *)
From Coq Require Import List.
From SM Require Import Construct Cache.
From SM.gen Require Import Tables.
From SM.specs Require Import C08_spec.
From SM.proofs Require Import CacheFresh.

Theorem C08_never_stale : never_stale.
Proof. exact never_stale_proof. Qed.
Print Assumptions C08_never_stale.

Theorem C08_generated_table_ok : table_ok gen_invalidates = true.
Proof. vm_compute. reflexivity. Qed.
Print Assumptions C08_generated_table_ok.

Theorem C08_network_lookups_never_stale : forall h, fresh (hrun gen_invalidates h).
Proof. exact (never_stale_proof gen_invalidates C08_generated_table_ok). Qed.
Print Assumptions C08_network_lookups_never_stale.
