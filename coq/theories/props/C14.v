(* C14 — dynamics are invariant to construction order, names and turn-rate scaling.
   order_invariant: two graphs with the same node entries and the same edges in ANY insertion
   order prescribe the same next density and speed for every segment of every link (and, the
   origin laws depending on the graph only through the origin's own link, the same queues);
   model_order_invariant: therefore the results of the element-layer model (which C01 proves to
   be those values) agree element by element; scaling_invariant: multiplying the turn rates of
   all links leaving each node n by c(n) <> 0 changes nothing; share_is_turnrate: the inflow
   of a leaving link is beta/sum(beta) of the node inflow.  Names: Blocks.v has none.
   The *_model_* theorems state order and scaling invariance of the element-layer model itself (the
   engines regenerated from engines/numpy.py and engines/casadi.py), with both steps produced by the
   model on a valid network rather than assumed: they compose C01's theorem with the above. *)
From Coq Require Import Reals List.
From SM Require Import Num NumR Engine.
From SM.specs Require Import C14_spec.
From SM.proofs Require Import C14_proofs C14_model StepSpec.

Theorem C14_order_invariant : order_invariant.
Proof. exact order_invariant_proof. Qed.
Print Assumptions C14_order_invariant.
Theorem C14_model_order_invariant_numpy : model_order_invariant (@np_engine R NumR).
Proof. exact (model_order_invariant_proof _). Qed.
Print Assumptions C14_model_order_invariant_numpy.
Theorem C14_model_order_invariant_casadi : model_order_invariant (@cs_engine R NumR).
Proof. exact (model_order_invariant_proof _). Qed.
Print Assumptions C14_model_order_invariant_casadi.
Theorem C14_scaling_invariant : scaling_invariant.
Proof. exact scaling_invariant_proof. Qed.
Print Assumptions C14_scaling_invariant.
Theorem C14_share_is_turnrate : share_is_turnrate.
Proof. exact share_is_turnrate_proof. Qed.
Print Assumptions C14_share_is_turnrate.

Theorem C14_model_scaling_invariant_numpy : model_scaling_invariant (@np_engine R NumR).
Proof. exact (model_scaling_invariant_proof _ np_step_is_METANET). Qed.
Print Assumptions C14_model_scaling_invariant_numpy.
Theorem C14_model_scaling_invariant_casadi : model_scaling_invariant (@cs_engine R NumR).
Proof. exact (model_scaling_invariant_proof _ cs_step_is_METANET). Qed.
Print Assumptions C14_model_scaling_invariant_casadi.
Theorem C14_model_order_invariant_valid_numpy : model_order_invariant_valid (@np_engine R NumR).
Proof. exact (model_order_invariant_valid_proof _ np_step_is_METANET). Qed.
Print Assumptions C14_model_order_invariant_valid_numpy.
Theorem C14_model_order_invariant_valid_casadi : model_order_invariant_valid (@cs_engine R NumR).
Proof. exact (model_order_invariant_valid_proof _ cs_step_is_METANET). Qed.
Print Assumptions C14_model_order_invariant_valid_casadi.
