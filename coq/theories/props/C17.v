(* C17 — origin flows respect demand, capacity and space limits; queues stay non-negative.
   On the origin primitives REGENERATED from both engine sources, over the reals:
   ramp_bounds / simp_bounds / main_bounds: for non-negative queue, demand, control, metering
   rate in [0,1], first-segment density not above rho_max (> rho_crit): 0 <= q, q <= d + w/T,
   q <= capacity (ramp capacity; for the mainstream origin lanes * V(rho_crit) * rho_crit - via
   x (-a ln x)^(1/a) <= exp(-1/a) on (0,1], including the saturated region of the log-ratio
   guard), q = 0 at maximum density (ramps), and w + T (d - q) >= 0;
   queues_stay_nonneg: hence every next queue of the element-layer model is non-negative with
   no clamping option. *)
From Coq Require Import Reals.
From SM Require Import Num NumR Engine.
From SM.gen Require Import EnginesNp EnginesCs.
From SM.specs Require Import C17_spec.
From SM.proofs Require Import OriginBounds.

Theorem C17_ramp_numpy : ramp_bounds (@Np.origins_get_ramp_flow R NumR).
Proof. exact np_ramp_bounds. Qed.
Print Assumptions C17_ramp_numpy.
Theorem C17_ramp_casadi : ramp_bounds (@Cs.origins_get_ramp_flow R NumR).
Proof. exact cs_ramp_bounds. Qed.
Print Assumptions C17_ramp_casadi.
Theorem C17_simplified_numpy : simp_bounds (@Np.origins_get_simplifiedramp_flow R NumR).
Proof. exact np_simp_bounds. Qed.
Print Assumptions C17_simplified_numpy.
Theorem C17_simplified_casadi : simp_bounds (@Cs.origins_get_simplifiedramp_flow R NumR).
Proof. exact cs_simp_bounds. Qed.
Print Assumptions C17_simplified_casadi.
Theorem C17_mainstream_numpy : main_bounds (@Np.origins_get_mainstream_flow R NumR).
Proof. exact np_main_bounds. Qed.
Print Assumptions C17_mainstream_numpy.
Theorem C17_mainstream_casadi : main_bounds (@Cs.origins_get_mainstream_flow R NumR).
Proof. exact cs_main_bounds. Qed.
Print Assumptions C17_mainstream_casadi.
Theorem C17_queue_law_numpy : queue_law (@Np.origins_step_queue R NumR).
Proof. exact np_queue_law. Qed.
Print Assumptions C17_queue_law_numpy.
Theorem C17_queue_law_casadi : queue_law (@Cs.origins_step_queue R NumR).
Proof. exact cs_queue_law. Qed.
Print Assumptions C17_queue_law_casadi.
Theorem C17_queues_nonneg_numpy : queues_stay_nonneg (@np_engine R NumR).
Proof. exact np_queues_nonneg. Qed.
Print Assumptions C17_queues_nonneg_numpy.
Theorem C17_queues_nonneg_casadi : queues_stay_nonneg (@cs_engine R NumR).
Proof. exact cs_queues_nonneg. Qed.
Print Assumptions C17_queues_nonneg_casadi.
