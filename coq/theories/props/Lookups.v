(* Lookups.v - the pinned source of the derived look-ups and link views (nothing else here) *)
From SM.specs Require Import Lookups_spec.
From SM.gen Require Import Lookups.
From SM.proofs Require Import LookupsFacts.

Theorem lookup_and_view_bodies_as_modelled : lookups_as_modelled lookup_bodies.
Proof. exact lookup_bodies_expected. Qed.
Print Assumptions lookup_and_view_bodies_as_modelled.
