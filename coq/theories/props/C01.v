(* C01 — one-step dynamics equal the METANET equations on every valid network.
   step_is_METANET E (specs/C01_spec.v): for EVERY universe, parameter set, well-formed graph
   accepted by the validation model, and state of the right shapes, network_step with no
   positivity option returns, for every link segment, Spec.spec_rho_next / spec_v_next
   (eqs. 3.1-3.11, node rules 3.2.2 with turn-rate split, flow-weighted upstream speed,
   downstream density from FIRST segments or the destination law, merging, lane-drop and
   speed-limit terms) and for every queued origin Spec.spec_w_next - any in/out degree,
   cycles, self-loops, 1..N segments.  The engines are the definitions regenerated from
   engines/numpy.py and engines/casadi.py. *)
From Coq Require Import Reals List.
From SM Require Import Num NumR Engine.
From SM.specs Require Import C01_spec.
From SM.proofs Require Import StepSpec StepExample.

Theorem C01_numpy_step_is_METANET : step_is_METANET (@np_engine R NumR).
Proof. exact np_step_is_METANET. Qed.
Print Assumptions C01_numpy_step_is_METANET.

Theorem C01_casadi_step_is_METANET : step_is_METANET (@cs_engine R NumR).
Proof. exact cs_step_is_METANET. Qed.
Print Assumptions C01_casadi_step_is_METANET.

(* the hypotheses are satisfiable: a 2x2 junction with a ramp, a VSL link and a 1-segment link *)
Theorem C01_hypotheses_satisfiable : example_meets_hypotheses.
Proof. exact example_ok. Qed.
Print Assumptions C01_hypotheses_satisfiable.
