(* Pin_selection.v - pinned source text (nothing else here) *)
From SM.specs Require Import Pin_selection_spec.
From SM.gen Require Import Pin_selection.
From SM.proofs Require Import Pin_selection_facts.

Theorem selection_source_is_the_text_the_model_was_written_from : selection_source_as_modelled pin_selection.
Proof. exact pin_selection_expected. Qed.
Print Assumptions selection_source_is_the_text_the_model_was_written_from.
