(* Pin_compile.v - pinned source text (nothing else here) *)
From SM.specs Require Import Pin_compile_spec.
From SM.gen Require Import Pin_compile.
From SM.proofs Require Import Pin_compile_facts.

Theorem compile_source_is_the_text_the_model_was_written_from : compile_source_as_modelled pin_compile.
Proof. exact pin_compile_expected. Qed.
Print Assumptions compile_source_is_the_text_the_model_was_written_from.
