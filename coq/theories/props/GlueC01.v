(* GlueC01.v - C01 stated on the regenerated glue and the regenerated engines (nothing else here) *)
From Coq Require Import Reals.
From SM Require Import Num NumR Engine.
From SM.specs Require Import Glue_spec.
From SM.proofs Require Import GlueMETANET StepExample.

Theorem C01_regenerated_glue_on_numpy_engine_is_METANET : regenerated_step_is_METANET (@np_engine R NumR).
Proof. exact np_regenerated_step_is_METANET. Qed.
Print Assumptions C01_regenerated_glue_on_numpy_engine_is_METANET.

Theorem C01_regenerated_glue_on_casadi_engine_is_METANET : regenerated_step_is_METANET (@cs_engine R NumR).
Proof. exact cs_regenerated_step_is_METANET. Qed.
Print Assumptions C01_regenerated_glue_on_casadi_engine_is_METANET.

Theorem C01_regenerated_glue_steps_the_example :
  exists out, gen_network_step (@np_engine R NumR) exU' exP exG Types.no_options exSt = Blocks.Ok out.
Proof. exact regenerated_example_steps. Qed.
Print Assumptions C01_regenerated_glue_steps_the_example.
