(* C07 — every network accepted by validation can be stepped and compiled.  PARTIAL (see below).
   steps_with_all_options (both regenerated engines, over the reals): for every well-formed graph
     accepted by the validation model, every state of the right shapes and EVERY combination of the
     six positivity options, network_step returns a result - none of the modelled Python failure
     points (assert len(links) == 1 of an origin / destination, first of an empty view, missing
     origin at a source node, missing key, shape mismatch) is reachable - with one entry per link in
     the network's order and one per origin, and every next state has the length of its state;
   compiles_at_every_level: the ToFunction model then returns a function at compactness 0, 1, 2,
     with and without the extra flow outputs, for every option set;
   mainstream_defined / ramp_defined (partial reals: None = nan/inf born from finite input): the
     origin laws of both engines are defined on the whole admissible domain including zero speed
     and zero density - the log-ratio guard keeps log and power in their domains.
   step_commutes_with_injection / every_output_finite (specs/C07fin_spec.v; both engines): the finiteness
     clause for a WHOLE STEP.  The model run on the partial reals from finite admissible inputs -
     non-negative densities with exact zeros allowed, any finite speeds and queues (for a mainstream origin
     a non-negative speed limit and first speed, zero included), positive L, lanes, rho_crit, a, tau, kappa, T,
     rho_crit < rho_max for ramps, excluding only a merge with zero total inflow, a bifurcation with zero total
     first-segment density and turn rates summing to zero - is, entry by entry and for every option set, the
     injection of the run on the reals: no nan / inf is born anywhere in the step.  finite_hypotheses_satisfiable:
     a merge with an empty entering link at standstill and a mainstream origin with zero speed limit meets them.
   Partial: "succeeds" covers the failure points the model makes explicit; other Python exceptions
   (library signature mismatch, glue type errors), the NumPy/CasADi shape rules for 0-d / (1,) /
   (n,1) values and IEEE overflow / rounding (the partial reals are exact) are decided by the
   dynamic runs only (every accepted graph - also arbitrary graphs filtered by the implementation's
   own is_valid - stepped on NumPy with own variables / user arrays of three scalar shapes and on
   CasADi SX/MX, compiled at all levels, at boundary states). *)
From Coq Require Import Reals List.
From SM Require Import Num NumR NumPR Engine.
From SM.gen Require Import EnginesNp EnginesCs.
From SM.specs Require Import C07_spec C07fin_spec.
From SM.proofs Require Import Steppable Finite.

Theorem C07_numpy_steps_with_all_options : steps_with_all_options (@np_engine R NumR).
Proof. exact np_steps_with_all_options. Qed.
Print Assumptions C07_numpy_steps_with_all_options.
Theorem C07_casadi_steps_with_all_options : steps_with_all_options (@cs_engine R NumR).
Proof. exact cs_steps_with_all_options. Qed.
Print Assumptions C07_casadi_steps_with_all_options.
Theorem C07_compiles_at_every_level : compiles_at_every_level.
Proof. exact compiles_at_every_level_proof. Qed.
Print Assumptions C07_compiles_at_every_level.
Theorem C07_mainstream_defined_numpy : mainstream_defined (@Np.origins_get_mainstream_flow PR NumPR).
Proof. exact np_mainstream_defined. Qed.
Print Assumptions C07_mainstream_defined_numpy.
Theorem C07_mainstream_defined_casadi : mainstream_defined (@Cs.origins_get_mainstream_flow PR NumPR).
Proof. exact cs_mainstream_defined. Qed.
Print Assumptions C07_mainstream_defined_casadi.
Theorem C07_ramp_defined_numpy : ramp_defined (@Np.origins_get_ramp_flow PR NumPR).
Proof. exact np_ramp_defined. Qed.
Print Assumptions C07_ramp_defined_numpy.
Theorem C07_ramp_defined_casadi : ramp_defined (@Cs.origins_get_ramp_flow PR NumPR).
Proof. exact cs_ramp_defined. Qed.
Print Assumptions C07_ramp_defined_casadi.

(* finiteness of a whole step *)
Theorem C07_step_commutes_with_injection_numpy :
  step_commutes_with_injection (@np_engine PR NumPR) (@np_engine R NumR).
Proof. exact np_step_commutes_with_injection. Qed.
Print Assumptions C07_step_commutes_with_injection_numpy.
Theorem C07_step_commutes_with_injection_casadi :
  step_commutes_with_injection (@cs_engine PR NumPR) (@cs_engine R NumR).
Proof. exact cs_step_commutes_with_injection. Qed.
Print Assumptions C07_step_commutes_with_injection_casadi.
Theorem C07_every_output_finite_numpy : every_output_finite (@np_engine PR NumPR) (@np_engine R NumR).
Proof. exact np_every_output_finite. Qed.
Print Assumptions C07_every_output_finite_numpy.
Theorem C07_every_output_finite_casadi : every_output_finite (@cs_engine PR NumPR) (@cs_engine R NumR).
Proof. exact cs_every_output_finite. Qed.
Print Assumptions C07_every_output_finite_casadi.
Theorem C07_finite_hypotheses_satisfiable : finite_example_meets_hypotheses.
Proof. exact finite_example_ok. Qed.
Print Assumptions C07_finite_hypotheses_satisfiable.
(* the usual reading: a non-negative state (left as it is by the positive_init_* clamps), every option set *)
Theorem C07_every_output_finite_from_nonnegative_numpy :
  every_output_finite_from_nonnegative (@np_engine PR NumPR) (@np_engine R NumR).
Proof. exact np_every_output_finite_from_nonnegative. Qed.
Print Assumptions C07_every_output_finite_from_nonnegative_numpy.
Theorem C07_every_output_finite_from_nonnegative_casadi :
  every_output_finite_from_nonnegative (@cs_engine PR NumPR) (@cs_engine R NumR).
Proof. exact cs_every_output_finite_from_nonnegative. Qed.
Print Assumptions C07_every_output_finite_from_nonnegative_casadi.
