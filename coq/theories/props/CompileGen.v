(* props/CompileGen.v — the layout model of the compiled function is the regenerated code (T12, translator/compilegen.py).
   The four compile helpers of engines/casadi.py (_gather_inputs, _gather_outputs, _add_parameters_to_inputs,
   _add_flows_to_outputs) are executed symbolically from their AST on every run (gen/CompileGen.v over PySupport.v); for EVERY
   integer compactness level the argument list, the result list and the extra flow outputs of the hand-written model
   ToFunction.v - which C03 / C04 / C05 / C16 are about - are what the regenerated definitions compute from the model's
   dictionaries of variables; names and values stay paired; the IndexError branch of the regenerated flow helper is never taken. *)
From Coq Require Import List.
From SM.specs Require Import CompileGen_spec.
From SM.proofs Require Import CompileGenTie.

Theorem inputs_layout_is_the_regenerated_code : inputs_layout_is_the_regenerated_code.
Proof. exact inputs_layout_is_the_regenerated_code_proof. Qed.
Print Assumptions inputs_layout_is_the_regenerated_code.
Theorem outputs_layout_is_the_regenerated_code : outputs_layout_is_the_regenerated_code.
Proof. exact outputs_layout_is_the_regenerated_code_proof. Qed.
Print Assumptions outputs_layout_is_the_regenerated_code.
Theorem flows_layout_is_the_regenerated_code : flows_layout_is_the_regenerated_code.
Proof. exact flows_layout_is_the_regenerated_code_proof. Qed.
Print Assumptions flows_layout_is_the_regenerated_code.
Theorem model_flow_outputs_use_flow_layout : model_flow_outputs_use_flow_layout.
Proof. exact model_flow_outputs_use_flow_layout_proof. Qed.
Print Assumptions model_flow_outputs_use_flow_layout.

(* Engine.to_function itself, regenerated: for every element / value type, all dictionaries of variables, every integer
   level, with and without extra outputs and declared parameters, cs.Function is handed exactly the generic layouts (values
   in, values out, names in, names out in their roles); on the model's dictionaries these are ToFunction.v's lists *)
Theorem to_function_layout_is_the_regenerated_code : to_function_layout_is_the_regenerated_code.
Proof. exact to_function_layout_is_the_regenerated_code_proof. Qed.
Print Assumptions to_function_layout_is_the_regenerated_code.
Theorem model_layouts_are_the_generic_ones : model_layouts_are_the_generic_ones.
Proof. exact model_layouts_are_the_generic_ones_proof. Qed.
Print Assumptions model_layouts_are_the_generic_ones.
