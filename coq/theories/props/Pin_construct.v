(* Pin_construct.v - pinned source text (nothing else here) *)
From SM.specs Require Import Pin_construct_spec.
From SM.gen Require Import Pin_construct.
From SM.proofs Require Import Pin_construct_facts.

Theorem construct_source_is_the_text_the_model_was_written_from : construct_source_as_modelled pin_construct.
Proof. exact pin_construct_expected. Qed.
Print Assumptions construct_source_is_the_text_the_model_was_written_from.
