(* Sym.v — symbolic driver: runs the element-layer model at the expression-tree
   instance and prints every output, one string per scalar. *)
From Coq Require Import QArith List String Arith Bool.
From SM Require Import Num Graph Engine Expr Types Blocks.
Import ListNotations.
Local Open Scope string_scope.

Definition sym_params (has_delta has_phi : bool) : params expr := {|
  lp := fun l p => Var (LPar l p);
  ocap := fun o => Var (OCap o);
  gT := Var (Glob GT); gtau := Var (Glob Gtau); geta := Var (Glob Geta);
  gkappa := Var (Glob Gkappa);
  gdelta := if has_delta then Some (Var (Glob Gdelta)) else None;
  gphi := if has_phi then Some (Var (Glob Gphi)) else None |}.

Definition sym_state (U : universe) : state expr := {|
  s_rho := fun m => map (fun i => Var (Rho m i)) (seq 0 (lN (linkd U m)));
  s_v := fun m => map (fun i => Var (Vel m i)) (seq 0 (lN (linkd U m)));
  s_w := fun o => Var (Que o);
  s_uo := fun o => Var (ActO o);
  s_do := fun o => Var (DistO o);
  s_vc := fun m => match lvsl (linkd U m) with
                   | Some vsl => map (fun k => Var (ActL m k)) (seq 0 (List.length vsl))
                   | None => []
                   end;
  s_dd := fun d => Var (DistD d) |}.

Definition show_err (e : err) : string :=
  match e with EAssert => "EAssert" | EEmpty => "EEmpty" | ENoneFlow => "ENoneFlow"
             | EKey => "EKey" | EShape => "EShape" end.

Fixpoint show_vec (tag : string) (l : nat) (i : nat) (xs : list expr) : list string :=
  match xs with
  | [] => []
  | x :: xs' => (tag ++ " " ++ snat l ++ " " ++ snat i ++ " | " ++ show x)
                  :: show_vec tag l (S i) xs'
  end.

Definition show_out (r : res (step_out (A:=expr))) : list string :=
  match r with
  | Err e => ["ERR " ++ show_err e]
  | Ok o =>
      app (flat_map (fun x => let '(l, (r, v)) := x in app (show_vec "rho+" l 0 r) (show_vec "v+" l 0 v))
               (o_links o))
      (flat_map (fun x => match snd x with
                            | Some w => ["w+ " ++ snat (fst x) ++ " 0 | " ++ show w]
                            | None => [] end) (o_queues o))
  end.

(* auxiliary observables: the flows the update used *)
Definition show_res1 (tag : string) (k : nat) (r : res expr) : list string :=
  match r with
  | Ok x => [tag ++ " " ++ snat k ++ " 0 | " ++ show x]
  | Err e => [tag ++ " " ++ snat k ++ " 0 ! " ++ show_err e]
  end.

Definition run_sym (E : engine expr) (U : universe) (g : graph) (opts : options)
           (has_delta has_phi : bool) : list string :=
  let P := sym_params has_delta has_phi in
  let st := sym_state U in
  let st' := init_state E opts st in
  (show_out (network_step E U P g opts st)
  ++ flat_map (fun e => show_vec "q" (e_link e) 0 (link_flow E U st' (e_link e))) (links g)
  ++ flat_map (fun e =>
       match nodes_of_link g (e_link e) with
       | Some (nu, _) =>
           show_res1 "qin" (e_link e)
             (bind (node_up_speed_flow E U P g st' nu (e_link e)) (fun vq => Ok (snd vq)))
       | None => []
       end) (links g)
  ++ flat_map (fun o => show_res1 "qo" o (origin_flow E U P g st' o)) (map fst (origins_dict g)))%list.
