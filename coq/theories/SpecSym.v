(* SpecSym.v — prints the specification trees of a network (independent of the
   generated engines). *)
From Coq Require Import QArith List String Arith Bool.
From SM Require Import Num Graph Expr Types Spec.
Import ListNotations.
Local Open Scope string_scope.

Definition spec_params (has_delta has_phi : bool) : params expr := {|
  lp := fun l p => Var (LPar l p);
  ocap := fun o => Var (OCap o);
  gT := Var (Glob GT); gtau := Var (Glob Gtau); geta := Var (Glob Geta);
  gkappa := Var (Glob Gkappa);
  gdelta := if has_delta then Some (Var (Glob Gdelta)) else None;
  gphi := if has_phi then Some (Var (Glob Gphi)) else None |}.

Definition spec_state (U : universe) : state expr := {|
  s_rho := fun m => map (fun i => Var (Rho m i)) (seq 0 (lN (linkd U m)));
  s_v := fun m => map (fun i => Var (Vel m i)) (seq 0 (lN (linkd U m)));
  s_w := fun o => Var (Que o);
  s_uo := fun o => Var (ActO o);
  s_do := fun o => Var (DistO o);
  s_vc := fun m => match lvsl (linkd U m) with
                   | Some vsl => map (fun k => Var (ActL m k)) (seq 0 (List.length vsl))
                   | None => []
                   end;
  s_dd := fun d => Var (DistD d) |}.

Definition line (tag : string) (a b : nat) (x : expr) : string :=
  tag ++ " " ++ snat a ++ " " ++ snat b ++ " | " ++ show x.

Definition run_spec (U : universe) (g : graph) (has_delta has_phi : bool) : list string :=
  let P := spec_params has_delta has_phi in
  let st := spec_state U in
  (flat_map (fun e =>
     let m := e_link e in
     flat_map (fun i => [line "rho+" m i (spec_rho_next U P g st e i);
                         line "v+" m i (spec_v_next U P g st e i);
                         line "q" m i (sflow U st m i)]) (seq 0 (lN (linkd U m)))
     ++ [line "qin" m 0 (sinflow U P g st e)]) (links g)
   ++ flat_map (fun ne =>
        match n_orig ne, out_links g (nid ne) with
        | Some o, e :: _ =>
            (if is_queued (okind_of U o) then [line "w+" o 0 (spec_w_next U P st o (e_link e))] else [])
            ++ [line "qo" o 0 (sorigin_flow U P st o (e_link e))]
        | _, _ => []
        end) (g_nodes g))%list.
