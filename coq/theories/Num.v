(* Num.v — the numeric structure every model definition is polymorphic in,
   and the vector combinators the generated engine code is written with.
   No proofs here (so the model still runs when a proof breaks). *)
From Coq Require Export QArith List String.
Export ListNotations.

Class Num (A : Type) := {
  ofQ  : Q -> A;
  add  : A -> A -> A;
  sub  : A -> A -> A;
  mul  : A -> A -> A;
  div  : A -> A -> A;
  neg  : A -> A;
  sq   : A -> A;
  nexp : A -> A;
  nlog : A -> A;
  npow : A -> A -> A;
  nmin : A -> A -> A;
  nmax : A -> A -> A;
  iflt : A -> A -> A -> A -> A   (* iflt a b t e  =  if a < b then t else e *)
}.

Section Vec.
Context {A : Type} {NA : Num A}.

Definition zero : A := ofQ 0.
Definition one  : A := ofQ 1.

(* vector (+) vector: elementwise; the element layer only combines equal lengths *)
Definition vv (f : A -> A -> A) (a b : list A) : list A :=
  map (fun p => f (fst p) (snd p)) (combine a b).
(* vector (+) scalar and scalar (+) vector: broadcasting of a scalar *)
Definition vs (f : A -> A -> A) (a : list A) (s : A) : list A := map (fun x => f x s) a.
Definition sv (f : A -> A -> A) (s : A) (b : list A) : list A := map (fun y => f s y) b.

(* np.sum(x, 0) / cs.sum1(x): left-to-right *)
Definition vsum (x : list A) : A :=
  match x with
  | [] => zero
  | x0 :: xs => fold_left add xs x0
  end.

Definition vfirst (x : list A) : A := nth 0 x zero.          (* x[0]  *)
Definition vlast  (x : list A) : A := last x zero.           (* x[-1] *)

(* x[0] op= e  (also x[:1] op= e) and x[-1] op= e as functional updates *)
Definition upd_first (f : A -> A) (x : list A) : list A :=
  match x with
  | [] => []
  | x0 :: xs => f x0 :: xs
  end.
Fixpoint upd_last (f : A -> A) (x : list A) : list A :=
  match x with
  | [] => []
  | [x0] => [f x0]
  | x0 :: xs => x0 :: upd_last f xs
  end.

(* x[idx] (gather) and x[idx] = vals (scatter) for an index list *)
Definition gather (idx : list nat) (x : list A) : list A :=
  map (fun i => nth i x zero) idx.
Fixpoint set_nth (i : nat) (y : A) (x : list A) {struct i} : list A :=
  match i with
  | O => match x with [] => [] | _ :: xs => y :: xs end
  | S i' => match x with [] => [] | x0 :: xs => x0 :: set_nth i' y xs end
  end.
Fixpoint scatter (idx : list nat) (vals : list A) (x : list A) : list A :=
  match idx, vals with
  | i :: idx', y :: vals' => scatter idx' vals' (set_nth i y x)
  | _, _ => x
  end.

(* x[:-1] and x[1:] *)
Definition vinit (x : list A) : list A := removelast x.
Definition vtail (x : list A) : list A := tl x.

End Vec.
