#!/venv/bin/python
"""check.py Cxx quick|thorough      decide one property on /repo's current working tree
check.py --replay <file>          re-run a recorded failing input against /repo
check.py --setup                  regenerate + full build of the Coq development

Verdict logic (DESIGN 1.6):
  regenerate gen/*.v from /repo -> make -k -> proof status of the property's cone
  run corpus + correspondence slice  -> model != implementation cases
  run the direct oracle              -> concrete failing inputs
  concrete failing input (not a listed known finding) -> VIOLATION ... replay=<input>
  else broken proof / translator / correspondence     -> VIOLATION ... no-failing-input-found
"""
import hashlib
import importlib
import json
import os
import random
import sys
import time
import traceback

os.environ.setdefault("PYTHONHASHSEED", "0")
VERIF = os.path.dirname(os.path.abspath(__file__))
REPO = os.environ.get("VERIF_REPO", "/repo")
sys.path.insert(0, VERIF)
# the implementation under test is always /repo's working tree
sys.path.insert(0, os.path.join(REPO, "src"))
os.environ["VERIF_REPO_SRC"] = os.path.join(REPO, "src")

from harness import build  # noqa: E402
from harness.registry import PROPS  # noqa: E402

TRUSTED_COMMON = [
    "Coq 8.16.1 kernel (coqc; vm_compute used in case files and finite side conditions; no native_compute)",
    "translators /verif/translator/*.py (Python ast -> Gallina, fail-closed)",
    "correspondence harness /verif/harness (generators, tree evaluator, tolerance rule)",
    "specification files (Spec.v, specs/*.v) and interpretation choices S1-S4 of DESIGN.md",
    "modelled, not verified: networkx.DiGraph ordering, Python dict/cached_property semantics, "
    "NumPy/CasADi elementwise arithmetic and broadcasting, float rounding",
]


def load_known():
    try:
        j = json.load(open(os.path.join(VERIF, "known_findings.json")))
    except FileNotFoundError:
        return []
    return [f for f in j.get("findings", []) if f.get("status") == "known"]


def write_replay(pid, payload):
    os.makedirs(os.path.join(VERIF, "replays"), exist_ok=True)
    txt = json.dumps(payload, indent=1, sort_keys=True, default=str)
    h = hashlib.sha256(txt.encode()).hexdigest()[:10]
    path = os.path.join(VERIF, "replays", f"{pid}-{h}.json")
    with open(path, "w") as f:
        f.write(txt)
    return path


def proof_status(pid, meta, b):
    """obligations of the property's Coq cone and whether each is discharged"""
    obligations = []
    problems = []
    pf = meta["prop_file"]
    pfs = [pf] + list(meta.get("extra_prop_files", []))
    cone = sorted(set().union(*[build.deps_of(f) for f in pfs]))
    # translator obligations
    for g in meta.get("generators", []):
        err = b["gen"].get(g)
        obligations.append({"kind": "regenerated", "name": g, "ok": err is None})
        if err is not None:
            problems.append(f"translator {g} failed closed: {err}")
    # every file of the cone compiled
    for f in cone:
        ok = build.vo_ok(f)
        if not ok:
            problems.append(f"{f} does not compile")
    for pf_ in pfs:
        thms = build.theorems_in(pf_)
        ok_ass, ass, raw = (False, {}, "not built")
        if build.vo_ok(pf_):
            ok_ass, ass, raw = build.print_assumptions(pf_)
            if not ok_ass:
                problems.append(f"Print Assumptions of {pf_} failed: {raw[-300:]}")
        for t in thms:
            ok = build.vo_ok(pf_) and t in ass
            bad = [a for a in ass.get(t, []) if a not in build.AXIOM_WHITELIST]
            if bad:
                problems.append(f"theorem {t} depends on non-whitelisted axioms {bad}")
                ok = False
            obligations.append({"kind": "theorem", "name": t, "ok": ok, "axioms": ass.get(t)})
        if not thms:
            problems.append(f"no theorem in {pf_}")
    # supporting lemmas of the cone (counted, compiled == proved since no Admitted is allowed)
    nlem = 0
    for f in cone:
        if f != pf and (f.startswith("proofs/") or f.startswith("specs/")):
            nlem += len(build.theorems_in(f))
    hits = build.grep_forbidden(cone)
    obligations.append({"kind": "audit", "name": "no Admitted/admit/Axiom/Parameter/... in the cone",
                        "ok": not hits})
    if hits:
        problems.append("forbidden declarations: " + "; ".join(hits[:5]))
    return obligations, problems, cone, nlem


def run(pid, tier, replay=None):
    t0 = time.time()
    seed = int(os.environ.get("VERIF_SEED", "0"))
    meta = PROPS[pid]
    b = build.build()
    obligations, problems, cone, nlem = proof_status(pid, meta, b)

    outcome = None
    crash = None
    try:
        mod = importlib.import_module(meta["module"])
        ctx = {"tier": tier, "seed": seed, "rng": random.Random(seed * 7919 + 13), "pid": pid,
               "build": b,
               # the executable models are evaluated whenever they compile, also when a proof about them
               # does not: the search for a concrete failing input needs them most in that situation
               "model_ok": True,
               "proofs_ok": not any("does not compile" in p or "translator" in p for p in problems)}
        outcome = getattr(mod, meta.get("func", "run_" + pid))(ctx)
    except Exception:
        crash = traceback.format_exc()
        problems.append("harness crashed: " + crash[-600:])
        if os.environ.get("VERIF_DEBUG"):
            print(crash, file=sys.stderr)

    failures = outcome["failures"] if outcome else []
    disagreements = outcome["disagreements"] if outcome else []
    known = [k for k in load_known() if k["property"] == pid]
    new_fail, known_hit = [], []
    for f in failures:
        hit = [k for k in known if k.get("key") and k["key"] == f.get("key")]
        (known_hit if hit else new_fail).append(f)
    for k in known:
        if any(k.get("key") == f.get("key") for f in known_hit):
            print(f"KNOWN-FINDING: property={pid} {k['what']}")

    violations = 0
    lines = []
    if new_fail:
        violations = len(new_fail)

        def size(x):
            if "history" in x:
                return (0, len(x["history"]))
            if isinstance(x.get("net"), dict):
                return (1, len(x["net"].get("ops", [])) + sum(v.get("N", 1) for v in x["net"].get("links", {}).values()))
            return (0, 0)
        # the replay is the smallest failing case found (shortest history / smallest network), minimised further
        # where the slice knows how (operation sequences)
        f = min(new_fail, key=size)
        try:
            if hasattr(mod, "shrink"):
                f = mod.shrink(f)
        except Exception:
            pass
        path = write_replay(pid, {"property": pid, "kind": "input", "seed": seed, "tier": tier,
                                  "failure": f, "others": len(new_fail) - 1,
                                  "broken_obligations": problems})
        lines.append(f"VIOLATION property={pid} replay={path}")
    elif problems or disagreements:
        violations = 1
        path = write_replay(pid, {"property": pid, "kind": "obligation", "seed": seed, "tier": tier,
                                  "theorem_or_correspondence": problems,
                                  "correspondence_disagreements": disagreements[:5],
                                  "note": "no concrete failing input was found by the search"})
        lines.append(f"VIOLATION property={pid} replay={path} no-failing-input-found")

    nob = len(obligations)
    ndis = sum(1 for o in obligations if o["ok"])
    if disagreements:
        nob += 1
    else:
        nob += 1
        ndis += 1 if outcome is not None else 0
    cov = {
        "obligations": nob, "discharged": ndis,
        "checker_cmd": "cd /verif/coq && make -k (coqc 8.16.1, full .vo build) ; coqc props/%s.v "
                       "(Print Assumptions)" % pid,
        "trusted_base": TRUSTED_COMMON + meta.get("trusted", []),
        "obligation_list": obligations + [{"kind": "correspondence", "name": meta.get("slice", "model vs implementation"),
                                           "ok": outcome is not None and not disagreements}],
        "supporting_lemmas_in_cone": nlem,
        "coq_cone": cone,
        "axioms_whitelist": sorted(a for a in build.AXIOM_WHITELIST if "." in a),
    }
    if outcome:
        cov.update(outcome.get("coverage", {}))
    cov.setdefault("evaluations", 0)
    cov.setdefault("distinct_nontrivial", 0)
    cov.setdefault("samples", [{"obligations": [o["name"] for o in obligations][:6]}])
    ev = {"property_id": pid, "tier": tier, "seed": seed, "level": meta.get("level", "proof"),
          "coverage": cov, "assumptions": meta.get("assumptions", []),
          "wall_s": round(time.time() - t0, 2), "violations": violations,
          "problems": problems, "informational": (outcome or {}).get("info", [])[:40],
          "build": {"gen": b["gen"], "make_rc": b["rc"], "wall": round(b["wall"], 2)}}
    os.makedirs(os.path.join(VERIF, "evidence"), exist_ok=True)
    with open(os.path.join(VERIF, "evidence", f"{pid}.json"), "w") as f:
        json.dump(ev, f, indent=1, default=str)
    for ln in lines:
        print(ln)
    print(f"{pid} {tier}: obligations {ndis}/{nob}, evaluations {cov['evaluations']}, "
          f"failures {len(failures)} (known {len(known_hit)}), disagreements {len(disagreements)}, "
          f"{ev['wall_s']}s")
    return 1 if violations else 0


def main(argv):
    if len(argv) >= 2 and argv[1] == "--setup":
        b = build.build(verbose=False)
        bad = [f for f in build.coq_files() if not build.vo_ok(os.path.relpath(os.path.join(build.COQ, f), build.TH))]
        print({k: v for k, v in b.items() if k != "log"}, "not built:", bad)
        if bad:
            print(b["log"][-3000:])
        return 0  # a broken obligation is reported by the checks, not by setup
    if len(argv) >= 3 and argv[1] == "--replay":
        j = json.load(open(argv[2]))
        pid = j["property"]
        meta = PROPS[pid]
        if j.get("kind") != "input":
            print("replay names broken obligations, no input:", json.dumps(j.get("theorem_or_correspondence"), indent=1))
            return 0
        mod = importlib.import_module(meta["module"])
        return getattr(mod, "replay")(j["failure"])
    pid, tier = argv[1], (argv[2] if len(argv) > 2 else os.environ.get("VERIF_TIER", "quick"))
    return run(pid, tier)


if __name__ == "__main__":
    sys.exit(main(sys.argv))
